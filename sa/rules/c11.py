"""C11 — memories behave as arrays of rows (structural necessary conditions)."""
import ast
from ..engine.core import AnalysisError, need
from ..engine.astutil import unparse, dotted, pmatch, const_int, dump, template_of, dispatch_leaves, select_leaf
from ..engine.cfg import CFG
from ..engine.symx import run_paths
from . import c02, c03, c04, c05, c08, pyrtl_common
from .interp import PYRTL, PYEVAL, IR, RTLIL, XFRM, handled

PYSIM = "amaranth/sim/pysim.py"
LIBMEM = "amaranth/lib/memory.py"
MEM = "amaranth/hdl/_mem.py"

EXPLANATION = (
    "Static (ast-only) decision of structural necessary conditions of C11: (a) queue discipline of the simulated "
    "memory — write() only updates write_queue, is guarded by `addr in range(depth)`, merges into the pending row; "
    "read() returns committed data (0 outside the depth); only commit()/reset() assign data; (b) the clocked memory "
    "code of the simulator: write ports are enumerated over the *whole* write-port list (so the recorded triples are "
    "indexed like _transparent_for), the synchronous read reads first, then patches — for each index in "
    "port._transparent_for, under addr == waddr, data &= ~wen; data |= wdata & wen — with the triple of that index, "
    "then assigns the data signal, all under the read enable; asynchronous reads are recomputed on memory change; "
    "(c) masks — address/data/enable text is masked with the width of its own operand (taint rule R-01c on the "
    "memory code), the write enable is replicated per granule in both back ends; (d) identity maps — "
    "lib.memory.Memory.elaborate maps transparent_for through the index returned for the same WritePort object, "
    "emit_fragment builds write_ports in _write_ports order, PORTID/TRANSPARENCY_MASK use one map; (e) direct row "
    "access from testbenches goes through read()/write() of the same storage. NOT decided: behaviour for concrete "
    "port mixes and schedules."
)
ASSUMPTIONS = ["CPython ast parses /repo's source as the interpreter would"]
MIN_INSTANCES = {"R-11f": 2, "R-11a": 4, "R-11b": 6, "R-11c": 6, "R-11d": 4}


def r11a(model, ctx):
    R = "R-11a"
    from ..engine import refsem
    fw, paths = refsem.method_paths(model, f"{PYSIM}::_PyMemoryState.write")
    refsem.compare(ctx, R, "_PyMemoryState.write", f"{PYSIM}:{fw.lineno}", "_PyMemoryState.write", paths, [c02.REF_MEMORY_WRITE],
                   fact="bounds-guarded, queue seeded from data, masked merge into the pending row, sign fold, marks pending",
                   why="A write beyond the depth must change nothing; the merged row must be queued and the memory marked pending.")
    fr, paths = refsem.method_paths(model, f"{PYSIM}::_PyMemoryState.read")
    refsem.compare(ctx, R, "_PyMemoryState.read", f"{PYSIM}:{fr.lineno}", "_PyMemoryState.read", paths, [c02.REF_MEMORY_READ],
                   fact="committed row inside the depth, 0 outside",
                   why="read() must return self.data[addr] for addresses inside the depth and 0 outside.")
    fc = model.func(f"{PYSIM}::_PyMemoryState.commit")
    t = unparse(fc)
    ok = "for (addr, value) in self.write_queue.items()" in t.replace("for addr, value in", "for (addr, value) in") and \
        "self.data[addr] = value" in t and "self.write_queue.clear()" in t and "_run_wakers(self.wakers)" in t
    ctx.check(ok, R, "_PyMemoryState.commit", "applies the queue to data, clears it, runs the memory wakers",
              "commit() must apply every queued row to data, clear the queue and run the wakers (asynchronous read ports)", f"{PYSIM}:{fc.lineno}")
    ok = "changed = True" in t and "if self.data[addr] != value" in t and isinstance(fc.body[-1], ast.Return) and unparse(fc.body[-1].value) == "changed"
    ctx.check(ok, R, "_PyMemoryState.commit:changed", "reports whether a row changed", "commit() must report whether any row changed "
              "(so the design is re-evaluated)", f"{PYSIM}:{fc.lineno}")
    # signed rows are stored sign-folded at width-1 (R-01k instance): part of the write() summary above; the separate rule
    # id is kept for the cross-reference from C01
    fw, paths = refsem.method_paths(model, f"{PYSIM}::_PyMemoryState.write")
    refsem.compare(ctx, "R-01k", "_PyMemoryState.write:sign-fold", f"{PYSIM}:{fw.lineno}", "_PyMemoryState.write", paths,
                   [c02.REF_MEMORY_WRITE], fact="bit width-1 decides; fold with -1 << width / mask(width)",
                   why="Signed memory rows must be normalised by testing bit width-1 and folding with the same width.")


def r11b(model, ctx):
    R = "R-11b"
    fn = model.func_expanded(f"{PYRTL}::_FragmentCompiler.__call__")
    mod = model.mod(PYRTL)
    # the sync memory block
    blocks = [s for s in ast.walk(fn) if isinstance(s, ast.If) and unparse(s.test) == "isinstance(fragment, MemoryInstance)"
              and any(isinstance(x, ast.Assign) and unparse(x.targets[0]) == "write_vals" for x in s.body)]
    need(len(blocks) == 1, "_FragmentCompiler: clocked memory block (with write_vals) not found")
    blk = blocks[0]
    wl = [s for s in blk.body if isinstance(s, ast.For) and "write_ports" in unparse(s.iter)]
    rl = [s for s in blk.body if isinstance(s, ast.For) and "read_ports" in unparse(s.iter)]
    need(len(wl) == 1 and len(rl) == 1, "clocked memory block: write/read port loops not found")
    w, r = wl[0], rl[0]
    ok = unparse(w.iter) == "enumerate(fragment._write_ports)" and unparse(w.target) in ("(idx, port)", "idx, port")
    ctx.check(ok, R, "memory:write-loop:index-space", "idx enumerates the whole _write_ports list",
              f"the write-port loop must be `for idx, port in enumerate(fragment._write_ports)` so that idx is the port's index in "
              f"the full list — the index space of _transparent_for; enumerating a filtered list records the triples under "
              f"domain-local indices and the read port forwards another port's write; found `{unparse(w.iter)}`", f"{PYRTL}:{w.lineno}")
    skip = [s for s in w.body if isinstance(s, ast.If) and unparse(s.test) == "port._domain != domain_name" and isinstance(s.body[0], ast.Continue)]
    ctx.check(len(skip) == 1, R, "memory:write-loop:domain-filter", "ports of other domains are skipped inside the loop",
              "write ports of other domains must be skipped (continue) inside the enumerating loop", f"{PYRTL}:{w.lineno}")
    st = [s for s in w.body if isinstance(s, ast.Assign) and unparse(s.targets[0]) == "write_vals[idx]"]
    ok = len(st) == 1 and unparse(st[0].value) in ("(addr, data, en)", "addr, data, en")
    ctx.check(ok, R, "memory:write-loop:record", "write_vals[idx] = (addr, data, en)",
              "the write port's (addr, data, en) must be recorded under its own index", f"{PYRTL}:{w.lineno}")
    tm = [template_of(c.args[0]) for c in ast.walk(w) if isinstance(c, ast.Call) and isinstance(c.func, ast.Attribute)
          and c.func.attr == "append" and c.args and template_of(c.args[0]) is not None]
    ok = any(t.skeleton() == "slots[{0}].write({1}, {2}, {3})" and [h.src for h in t.holes] == ["memory_index", "addr", "data", "en"] for t in tm)
    ctx.check(ok, R, "memory:write-loop:write", "slots[m].write(addr, data, en)", "the generated write must be "
              "slots[memory].write(addr, data, en) with the port's own values", f"{PYRTL}:{w.lineno}")
    # the generated write is unconditional (or guarded by the write enable only): a word is stored whatever its value
    guards = [t for t in tm if t.skeleton().startswith("if ")]
    gok = all(t.skeleton() == "if {0}:" and [h.src for h in t.holes] == ["en"] for t in guards)
    ctx.check(gok, R, "memory:write-loop:unconditional", "the write is performed on every edge (the enable is its mask)",
              f"the generated write-port code is guarded by `{[t.skeleton().format(*[h.src for h in t.holes]) for t in guards]}`: "
              f"the write must be performed for every value of address and data — only the enable may gate it", f"{PYRTL}:{w.lineno}")
    # read loop: structure of emitted code, in order
    g = CFG(ast.FunctionDef(name="r", args=fn.args, body=r.body, decorator_list=[], lineno=r.lineno, col_offset=0), inline_closures=False)
    def tnode(skel):
        return g.nodes_with(lambda n: isinstance(n, ast.Call) and isinstance(n.func, ast.Attribute) and n.func.attr in ("append", "def_var")
                            and n.args and template_of(n.args[-1]) is not None and template_of(n.args[-1]).skeleton() == skel)
    en_if, rd, cmp_, clr, set_ = tnode("if {0}:"), tnode("slots[{0}].read({1})"), tnode("if {0} == {1}:"), tnode("{0} &= ~{1}"), tnode("{0} |= {1} & {2}")
    asg = g.nodes_with(lambda n: isinstance(n, ast.Call) and unparse(n) == "lhs(port._data)(data)")
    ok = all(len(x) == 1 for x in (en_if, rd, cmp_, clr, set_, asg))
    ctx.check(ok, R, "memory:read-loop:pieces", "enable test, read, address compare, clear, set, assign — one each",
              "the synchronous read port code must consist of: `if en:`, a read, `if addr == waddr:`, `data &= ~wen`, "
              "`data |= wdata & wen`, and the assignment of the data signal", f"{PYRTL}:{r.lineno}")
    if ok:
        order = [en_if[0], rd[0], cmp_[0], clr[0], set_[0], asg[0]]
        seq_ok = all(g.dominates({a}, b) or b in g.after(a) for a, b in zip(order, order[1:])) and \
            all(a not in g.after(b, blocked=set()) or True for a, b in zip(order, order[1:]))
        seq_ok = g.dominates({en_if[0]}, rd[0]) and g.dominates({rd[0]}, cmp_[0]) and g.dominates({cmp_[0]}, clr[0]) and \
            g.dominates({clr[0]}, set_[0]) and g.dominates({rd[0]}, asg[0]) and asg[0] in g.after(set_[0]) and set_[0] not in g.after(asg[0])
        ctx.check(seq_ok, R, "memory:read-loop:order", "read before patch before assignment, all after the enable test",
                  "a synchronous read port must read the row as it was before the edge, then patch it with transparent writes, "
                  "then assign — in that order, under the read enable", f"{PYRTL}:{r.lineno}")
        # the patch uses the triple of the transparent index
        tl = [s for s in ast.walk(r) if isinstance(s, ast.For) and unparse(s.iter) == "port._transparent_for"]
        okt = len(tl) == 1 and unparse(tl[0].target) == "idx" and \
            any(isinstance(x, ast.Assign) and unparse(x.targets[0]) in ("(waddr, wdata, wen)", "waddr, wdata, wen") and
                unparse(x.value) == "write_vals[idx]" for x in tl[0].body)
        ctx.check(okt, R, "memory:read-loop:transparent-index", "for idx in port._transparent_for: waddr, wdata, wen = write_vals[idx]",
                  "the transparency patch must take (waddr, wdata, wen) from write_vals[idx] for each idx in port._transparent_for",
                  f"{PYRTL}:{r.lineno}")
        holes = {}
        for nid, key in ((cmp_[0], "cmp"), (clr[0], "clr"), (set_[0], "set")):
            c = [n for n in ast.walk(g.stmt[nid]) if isinstance(n, ast.Call) and n.args and template_of(n.args[-1]) is not None][0]
            holes[key] = [h.src for h in template_of(c.args[-1]).holes]
        okh = holes["cmp"] == ["addr", "waddr"] and holes["clr"] == ["data", "wen"] and holes["set"] == ["data", "wdata", "wen"]
        ctx.check(okh, R, "memory:read-loop:patch", "addr == waddr; data &= ~wen; data |= wdata & wen",
                  f"the transparency patch must be `if addr == waddr: data &= ~wen; data |= wdata & wen`; found {holes}", f"{PYRTL}:{r.lineno}")
    skip = [s for s in r.body if isinstance(s, ast.If) and unparse(s.test) == "port._domain != domain_name" and isinstance(s.body[0], ast.Continue)]
    ctx.check(len(skip) == 1, R, "memory:read-loop:domain-filter", "read ports of other domains are skipped",
              "read ports of other domains must be skipped", f"{PYRTL}:{r.lineno}")
    # write loop precedes the read loop (so write_vals is complete)
    ok = blk.body.index(w) < blk.body.index(r)
    ctx.check(ok, R, "memory:write-before-read-code", "write ports are compiled before read ports", "write-port code (and write_vals) must "
              "be produced before the read ports are compiled", f"{PYRTL}:{blk.lineno}")
    # asynchronous read ports: comb branch, woken on memory change
    t = unparse(fn)
    ok = "self.state.add_memory_waker(fragment._data, memory_waker(domain_process))" in t and "if port._domain != 'comb':\n" in t
    ctx.check(ok, R, "memory:async-read", "comb read ports are re-evaluated when the memory changes",
              "asynchronous read ports must be compiled in the comb process and that process must be woken by a memory waker",
              f"{PYRTL}:{fn.lineno}")
    # the read data signal is part of the process's driven signals
    ok = "lhs_masks.visit_value(port._data, ~0)" in t
    ctx.check(ok, R, "memory:read-data-driven", "read data is registered as driven by the domain process",
              "the read port's data signal must be added to the process's driven-signal masks", f"{PYRTL}:{fn.lineno}")


def r11c(model, ctx):
    facts, errors = pyrtl_common.analyse_function(model, "_FragmentCompiler.__call__")
    mem = [f for f in facts if any(k in f.hole_src or k in f.skeleton for k in ("addr", "data", "en", "read(", "write("))]
    pyrtl_common.report(ctx, "R-11c", mem, errors)


def r11d(model, ctx):
    R = "R-11d"
    from ..engine.astutil import dict_contributions
    f = model.func_view(f"{LIBMEM}::Memory.elaborate")
    # the WritePort -> index map: one entry per port of self._write_ports, valued by what instance.write_port() returns for
    # that port's own fields (a loop with `d[port] = ...` or a dict comprehension); the read ports translate
    # transparent_for through that same map
    maps = {}
    for st in ast.walk(f):
        if isinstance(st, ast.Assign) and len(st.targets) == 1 and isinstance(st.targets[0], ast.Name) and \
                isinstance(st.value, (ast.Dict, ast.DictComp)):
            maps[st.targets[0].id] = dict_contributions(f, st.targets[0].id)
    WP = "instance.write_port(domain=port.domain, addr=port.addr, data=port.data, en=port.en)"
    good = [d for d, c in maps.items() if {(it, tg, k, v) for it, tg, k, v in c} == {("self._write_ports", "port", "port", WP)}]
    ok = len(good) == 1
    ctx.check(ok, R, "lib.Memory.elaborate:write-ports", "index returned by instance.write_port recorded per WritePort object",
              "each WritePort must be mapped to the index instance.write_port() returns for it, with its own domain/addr/data/en", f"{LIBMEM}:{f.lineno}")
    d = good[0] if good else "write_ports"
    rp = [n for n in ast.walk(f) if isinstance(n, ast.Call) and unparse(n.func) == "instance.read_port"]
    ok = len(rp) == 1
    if ok:
        kw = {k.arg: unparse(k.value) for k in rp[0].keywords}
        ok = kw == {"domain": "port.domain", "data": "port.data", "addr": "port.addr", "en": "port.en",
                    "transparent_for": f"tuple(({d}[write_port] for write_port in port.transparent_for))"} and not rp[0].args
    ctx.check(ok, R, "lib.Memory.elaborate:read-ports", "transparent_for mapped through the same dict",
              "a read port's transparent_for must be translated through the WritePort -> index map and passed with the port's own fields",
              f"{LIBMEM}:{f.lineno}")
    fw = model.func(f"{MEM}::MemoryInstance.write_port")
    ok = "self._write_ports.append(port)" in unparse(fw) and "return len(self._write_ports) - 1" in unparse(fw)
    ctx.check(ok, R, "MemoryInstance.write_port", "returns the index of the appended port", "write_port() must return the index of the "
              "port it appended", f"{MEM}:{fw.lineno}")
    fr = model.func(f"{MEM}::MemoryInstance.read_port")
    t = unparse(fr)
    ok = "idx in range(len(self._write_ports))" in t and "self._write_ports[idx]._domain == port._domain" in t
    ctx.check(ok, R, "MemoryInstance.read_port", "transparent indices must exist and be in the read port's domain",
              "read_port() must check each transparent index against the existing write ports and their domain", f"{MEM}:{fr.lineno}")
    # lib: read port transparent_for must name write ports of this memory and domain
    fp = model.func(f"{LIBMEM}::ReadPort.__init__")
    t = unparse(fp)
    ok = "port not in memory._write_ports" in t and "port.domain != domain" in t and t.count("raise ValueError") >= 2
    ctx.check(ok, R, "lib.ReadPort.__init__", "transparency set: write ports of the same memory and domain",
              "ReadPort must reject transparency sets naming ports of another memory or another domain", f"{LIBMEM}:{fp.lineno}")


def r11e(model, ctx):
    # direct row access (shared with C05 R-05d) is recomputed here for the memory rows only
    pass


def r11f(model, ctx):
    """write() stores an unmasked value as it is (R-11a pins that: without a mask only signed rows are folded); every caller
    in the simulator therefore passes the mask of the bits it writes — a whole-row write of an unbounded Python integer would
    otherwise leave a row outside the memory's shape"""
    R = "R-11f"
    import re
    n = 0
    for rel in (PYEVAL, PYRTL, PYSIM):
        tree = model.mod(rel).tree
        for c in ast.walk(tree):
            if isinstance(c, ast.Call) and isinstance(c.func, ast.Attribute) and c.func.attr == "write" and \
                    "slots[" in unparse(c.func.value):
                n += 1
                has_mask = len(c.args) >= 3 or any(k.arg == "mask" for k in c.keywords)
                ctx.check(has_mask, R, f"{rel.split('/')[-1]}:slot.write@{unparse(c.args[0]) if c.args else '?'}", "passes the write mask",
                          f"`{unparse(c)}` writes a memory row without a mask: _PyMemoryState.write stores such a value without "
                          f"reducing it to the row's width, so a value wider than the row corrupts the memory", f"{rel}:{c.lineno}")
            if isinstance(c, ast.JoinedStr):
                tpl = "".join(v.value if isinstance(v, ast.Constant) else "\x00" for v in c.values)
                for m in re.finditer(r"slots\[\x00\]\.write\(([^)]*)\)", tpl):
                    n += 1
                    nargs = len([a for a in m.group(1).split(",") if a.strip()])
                    ctx.check(nargs >= 3, R, f"{rel.split('/')[-1]}:emitted slot.write/{nargs}", "passes the write mask",
                              "the generated code writes a memory row without a mask (the write-enable pattern)", f"{rel}:{c.lineno}")
    need(n >= 2, "callers of the memory slot's write() were not found in _pyeval / _pyrtl")


def _only(rule_fn, keep):
    def wrapped(model, ctx):
        n0, v0 = len(ctx.obligations), len(ctx.violations)
        rule_fn(model, ctx)
        ctx.obligations[n0:] = [o for o in ctx.obligations[n0:] if keep(o["construct"])]
        ctx.violations[v0:] = [v for v in ctx.violations[v0:] if keep(v["construct"])]
    return wrapped


RULES = [("R-11f", r11f), ("R-08i", _only(c08.r08i, lambda c: c.startswith("_PyMemoryState"))), ("R-03h", c03.r03h), ("R-11a", r11a), ("R-11b", r11b), ("R-11c", r11c), ("R-11d", r11d),
         ("R-02g", _only(c02.r02g, lambda c: c.startswith("_PyMemoryState"))),
         ("R-05d", _only(c05.r05d, lambda c: "_Row" in c)),
         ("R-04d", _only(c04.r04d, lambda c: any(k in c for k in ("write-enable", "write_port", "read_port", "TRANSPARENCY", "write-port-ids", "write_ports")))),
         ("R-08a", _only(c08.r08a, lambda c: c.startswith("_PyMemoryState"))),
         # a disabled synchronous read port holds its output, also while the domain is in reset
         ("R-03b", _only(c03.r03b, lambda c: c == "_FragmentCompiler:reset-block:registers-only")),
         ("R-03a", _only(c03.r03a, lambda c: c.endswith(":registers-only"))),
         # an asynchronous read port follows the memory continuously: its process is woken by every committed write
         ("R-08g", _only(c08.r08g, lambda c: c.startswith("memory_waker") or c == "_run_wakers"))]
