"""Specialisation of the testbench evaluator (`_pyeval.eval_value`) per value kind / operator, and comparison of the
residual code with reference semantics written as tiny Python functions.

The evaluator is an interpreter: `eval_value(sim, value)` dispatches on `type(value)`, `value.operator` and
`len(value.operands)`.  For one (kind, operator, arity) the dispatch tests are pinned to constants and the function is
summarised path by path (engine/symx.run_paths with constant folding, table look-ups with constant keys, and bounded
inlining of module-level helpers, lambdas and `operator.*` functions).  What remains is a small set of
(open conditions, returned expression) pairs over the terms `eval_value(sim, value.operands[i])`, widths and sign flags.
Both the residual and the reference are brought to the canonical form of engine/bitalg (truth tables for the bitwise
layer, polynomial normal form for arithmetic, oriented comparisons, mask idioms unified), so the comparison is about
what is computed, not how it is spelled: if-chains, dict dispatch, helper functions, `~(-1 << n)` masks and the like
are all the same to it.  Nothing from /repo is executed."""
import ast
from ..engine.core import AnalysisError, need
from ..engine.astutil import unparse, dotted
from ..engine.symx import run_paths, subst
from ..engine.bitalg import Canon
from .interp import PYEVAL

KINDS = ["Const", "Operator", "Slice", "Part", "Concat", "SwitchValue", "Signal", "MemoryData._Row",
         "ClockSignal", "ResetSignal", "AnyValue", "Initial"]

# vocabulary the residual may use; anything else means the extractor does not understand the code (exit 2)
KNOWN_CALLS = {"eval_value", "format", "bin", "int", "bool", "len", "abs", "min", "max"}


def width_sign_hook(e, canon):
    """len(X) == X.shape().width ; X.shape().signed"""
    if isinstance(e, ast.Call) and dotted(e.func) == "len" and len(e.args) == 1 and not e.keywords:
        return ("width", canon.term(e.args[0]))
    if isinstance(e, ast.Attribute) and e.attr in ("width", "signed") and isinstance(e.value, ast.Call) and \
            isinstance(e.value.func, ast.Attribute) and e.value.func.attr == "shape" and not e.value.args:
        return (e.attr, canon.term(e.value.func.value))
    # Shape.cast(X).width
    if isinstance(e, ast.Attribute) and e.attr in ("width", "signed") and isinstance(e.value, ast.Call) and \
            dotted(e.value.func) == "Shape.cast" and len(e.value.args) == 1:
        return (e.attr, canon.term(e.value.args[0]))
    return None


def module_inline_table(model, rel, exclude=()):
    """module-level helper functions, lambdas and literal tables of one module, for bounded inlining"""
    mod = model.mod(rel)
    inline = {}
    for st in mod.tree.body:
        if isinstance(st, ast.FunctionDef) and st.name not in exclude:
            inline[st.name] = st
        elif isinstance(st, ast.Assign) and len(st.targets) == 1 and isinstance(st.targets[0], ast.Name) and \
                isinstance(st.value, (ast.Dict, ast.Tuple, ast.Set, ast.List, ast.Lambda)):
            inline[st.targets[0].id] = st.value
    return inline


def _truthy(term):
    if isinstance(term, tuple) and term and term[0] in ("cmp", "and", "or", "not"):
        return term
    return ("cmp", "!=", ("int", 0), term) if repr(("int", 0)) < repr(term) else ("cmp", "!=", term, ("int", 0))


def cond_term(canon, test, pol):
    t = _truthy(canon.term(test))
    if pol:
        return t
    if t[0] == "cmp" and t[1] in Canon._NEG:
        return canon._cmp(Canon._NEG[t[1]], t[2], t[3])
    return ("not", t)


def path_set(paths, canon, what):
    """canonical {(frozenset(conditions), returned term)} of the returning paths; paths with equal results whose
    conditions differ in the polarity of exactly one test are merged"""
    out = set()
    for p in paths:
        if p.how == "raise":
            continue
        if p.how != "return" or p.ret is None:
            raise AnalysisError(f"{what}: a path falls off the end / returns nothing")
        if p.effects:
            raise AnalysisError(f"{what}: path with side effects ({unparse(p.effects[0])[:60]})")
        conds = frozenset(cond_term(canon, t, pol) for t, pol in p.conds_open())
        out.add((conds, canon(p.ret)))
    changed = True
    while changed:
        changed = False
        items = list(out)
        for i, (c1, r1) in enumerate(items):
            for c2, r2 in items[i + 1:]:
                if r1 != r2 or len(c1) != len(c2):
                    continue
                d1, d2 = c1 - c2, c2 - c1
                if len(d1) == 1 and len(d2) == 1:
                    a, b = next(iter(d1)), next(iter(d2))
                    na = canon._cmp(Canon._NEG[a[1]], a[2], a[3]) if a[0] == "cmp" and a[1] in Canon._NEG else ("not", a)
                    if na == b or (b[0] == "not" and b[1] == a):
                        out.discard((c1, r1))
                        out.discard((c2, r2))
                        out.add((c1 & c2, r1))
                        changed = True
                        break
            if changed:
                break
    return out


def unknown_calls(paths):
    bad = set()
    for p in paths:
        nodes = ([p.ret] if p.ret is not None else []) + [t for t, _ in p.conds_open()]
        for root in nodes:
            for n in ast.walk(root):
                if isinstance(n, ast.Call):
                    fn = dotted(n.func)
                    if fn is None:
                        if isinstance(n.func, ast.Attribute) and n.func.attr in ("count", "bit_count", "shape"):
                            continue
                        bad.add(unparse(n.func)[:40])
                    elif fn.split(".")[-1] not in KNOWN_CALLS and fn.split(".")[-1] not in ("shape", "count", "bit_count", "cast"):
                        bad.add(fn)
    return bad


def specialise_eval(model, kind, op=None, arity=None):
    fn = model.func(f"{PYEVAL}::eval_value")
    inline = module_inline_table(model, PYEVAL, exclude=("eval_value",))

    def fold(node):
        if isinstance(node, ast.Attribute) and node.attr == "operator" and isinstance(node.value, ast.Name) and \
                node.value.id == "value" and op is not None:
            return ast.Constant(value=op)
        if isinstance(node, ast.Call) and dotted(node.func) == "len" and len(node.args) == 1 and \
                unparse(node.args[0]) == "value.operands" and arity is not None:
            return ast.Constant(value=arity)
        if isinstance(node, ast.Call) and dotted(node.func) == "isinstance" and len(node.args) == 2 and \
                unparse(node.args[0]) == "value":
            classes = node.args[1].elts if isinstance(node.args[1], ast.Tuple) else [node.args[1]]
            names = [dotted(c) for c in classes]
            if all(n is not None for n in names):
                return ast.Constant(value=any(n == kind or n.split(".")[-1] == kind.split(".")[-1] for n in names))
        if isinstance(node, ast.Compare) and len(node.ops) == 1 and isinstance(node.ops[0], (ast.Is, ast.Eq)) and \
                unparse(node.left) == "type(value)" and dotted(node.comparators[0]) is not None:
            return ast.Constant(value=dotted(node.comparators[0]).split(".")[-1] == kind.split(".")[-1])
        return None

    return fn, run_paths(fn.body, fold=fold, inline=inline, max_paths=4000, depth=4)


def reference_paths(src, names):
    body = ast.parse(src).body
    env = {k: ast.parse(v, mode="eval").body for k, v in names.items()}
    return run_paths(body, env=env)


NAMES = {
    "A": "eval_value(sim, value.operands[0])", "B": "eval_value(sim, value.operands[1])",
    "W": "value.shape().width", "SIGNED": "value.shape().signed", "W0": "value.operands[0].shape().width",
    "V": "eval_value(sim, value.value)",
}

_BIN = ["+", "-", "*", "&", "|", "^", "<<", ">>"]
_CMP = ["==", "!=", "<", "<=", ">", ">="]
M0 = "((1 << W0) - 1)"
EVAL_REF = {
    ("-", 1): ["return -A"],
    ("~", 1): ["if SIGNED:\n    return ~A\nreturn ~A & ((1 << W) - 1)"],
    ("b", 1): ["return A != 0"],
    ("r|", 1): ["return A != 0"],
    ("r&", 1): [f"return (A & {M0}) == {M0}", f"return (~A & {M0}) == 0"],
    ("r^", 1): [f"return format(A & {M0}, 'b').count('1') % 2", f"return bin(A & {M0}).count('1') % 2",
                f"return (A & {M0}).bit_count() % 2", f"return format(A & {M0}, 'b').count('1') & 1",
                f"return bin(A & {M0}).count('1') & 1", f"return (A & {M0}).bit_count() & 1"],
    ("u", 1): ["return A & ((1 << W) - 1)"],
    ("s", 1): ["v = A & ((1 << W) - 1)\nif v & (1 << (W - 1)):\n    return v | (-1 << (W - 1))\nreturn v",
               "v = A & ((1 << W) - 1)\nif v & (1 << (W - 1)):\n    return v | (-1 << W)\nreturn v",
               "v = A & ((1 << W) - 1)\nif v & (1 << (W - 1)):\n    return v - (1 << W)\nreturn v",
               "v = A & ((1 << W) - 1)\nif v >= (1 << (W - 1)):\n    return v - (1 << W)\nreturn v"],
    ("//", 2): ["if B == 0:\n    return 0\nreturn A // B"],
    ("%", 2): ["if B == 0:\n    return 0\nreturn A % B"],
}
for _s in _BIN:
    EVAL_REF[(_s, 2)] = [f"return A {_s} B"]
for _s in _CMP:
    EVAL_REF[(_s, 2)] = [f"return A {_s} B"]

KIND_REF = {
    "Const": ["return value.value"],
    "Slice": ["return (V >> value.start) & ((1 << (value.stop - value.start)) - 1)"],
    "Part": ["return (V >> (eval_value(sim, value.offset) * value.stride)) & ((1 << value.width) - 1)"],
}


def show(ps):
    def one(c, r):
        return (("if " + " and ".join(sorted(map(term_text, c))) + ": ") if c else "") + term_text(r)
    return " ; ".join(sorted(one(c, r) for c, r in ps))


def term_text(t):
    """readable rendering of a canonical term"""
    if not isinstance(t, tuple) or not t:
        return repr(t)
    k = t[0]
    if k == "int":
        return str(t[1])
    if k == "name":
        return t[1]
    if k == "attr":
        return f"{term_text(t[1])}.{t[2]}"
    if k in ("width", "signed"):
        return f"{k}({term_text(t[1])})"
    if k == "mask":
        return f"mask({term_text(t[1])})"
    if k == "cmp":
        return f"({term_text(t[2])} {t[1]} {term_text(t[3])})"
    if k == "call":
        f = t[1][1] if isinstance(t[1], tuple) and t[1][0] == "name" else term_text(t[1])
        return f"{f}({', '.join(term_text(a) for a in t[2])})"
    if k == "index":
        return f"{term_text(t[1])}[{term_text(t[2])}]"
    if k in ("shl", "shr"):
        return f"({term_text(t[1])} {'<<' if k == 'shl' else '>>'} {term_text(t[2])})"
    if k == "tt":
        leaves, table = t[1], t[2]
        names = [term_text(x) for x in leaves]
        n = len(leaves)
        # common shapes
        if n == 1 and table == 0b01:
            return f"~{names[0]}"
        if n == 2 and table == 0b1000:
            return f"({names[0]} & {names[1]})"
        if n == 2 and table == 0b1110:
            return f"({names[0]} | {names[1]})"
        if n == 2 and table == 0b0110:
            return f"({names[0]} ^ {names[1]})"
        return f"bitfn[{table:#x}]({', '.join(names)})"
    if k == "poly":
        parts = []
        for m, c in t[1]:
            mono = "*".join(term_text(x) for x in m)
            parts.append(f"{c}*{mono}" if mono and c != 1 else (mono or str(c)))
        return "(" + " + ".join(parts) + ")"
    if k in ("and", "or"):
        return "(" + f" {k} ".join(term_text(x) for x in t[1:]) + ")"
    if k == "not":
        return f"not {term_text(t[1])}"
    return k + "(" + ", ".join(term_text(x) if isinstance(x, tuple) else repr(x) for x in t[1:]) + ")"


def compare(model, ctx, rule, construct, where, found_paths, refs, names, what):
    """found residual vs reference alternatives; VIOLATION only when the residual is within the understood vocabulary"""
    canon = Canon(atom_hook=width_sign_hook)
    live = [p for p in found_paths if p.how != "raise"]
    need(live, f"{what}: no returning path (not handled)")
    bad = unknown_calls(live)
    if bad:
        raise AnalysisError(f"{what}: residual code calls {sorted(bad)} which the specialiser cannot expand")
    found = path_set(live, canon, what)
    want_sets = [path_set(reference_paths(r, names), canon, what + " (reference)") for r in refs]
    ok = any(found == w for w in want_sets)
    ctx.check(ok, rule, construct, f"computes {show(found)}",
              f"{what} computes `{show(found)}`; the documented semantics is `{show(want_sets[0])}`", where)
    return ok
