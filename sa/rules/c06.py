"""C06 — multiply-driven bits and combinational loops are rejected (structural necessary conditions)."""
import ast
from ..engine.core import AnalysisError, need
from ..engine.astutil import (dispatch_leaves, select_leaf, const_str, const_int, dotted, unparse, pmatch, str_elts,
                              walk_no_nested, find_matches, dump, names_in)
from ..engine.symx import run_paths
from ..engine.cfg import CFG, ENTRY, EXIT, RAISE
from . import interp, c04
from .interp import IR, NIR, DSL, handled

EXPLANATION = (
    "Static (ast-only) decision of structural necessary conditions of C06: (a) in Netlist.check_comb_cycles every "
    "net marked busy in a DFS frame is covered by the condition that turns a returned Cycle into `raise "
    "CombinationalCycle` (so a detected cycle never degrades into an AssertionError / a silently dropped result); "
    "(b) build_netlist runs check_comb_cycles() after netlist emission and before net resolution on every path; "
    "(c) netlist.connections is written only behind the driver-conflict test (who-may-write), and I/O bits reach "
    "cells only through the single-use gate emit_io_use; (d) the comb-edge relation: comb_edges_is_per_bit() is "
    "true exactly where comb_edges_to depends on `bit` (per cell class and, for Operator, per netlist operator), "
    "combinational cells expose all their inputs as comb edges without filtering, sequential cells expose no "
    "data edges; (e) the early per-bit domain check in Module._add_statement. NOT decided: the if-and-only-if over "
    "all designs (absence of false negatives of the DFS itself)."
)
ASSUMPTIONS = [
    "CPython ast parses /repo's source as the interpreter would",
    "classification of netlist cells into combinational / sequential / sources, frozen in sa/rules/c06.py",
]
MIN_INSTANCES = {"R-06f": 1, "R-06a": 2, "R-06b": 2, "R-06c": 4, "R-06d": 40, "R-06e": 1}

# cell class -> ('comb', attrs that must all be comb inputs) | ('seq', control attrs allowed) | ('none',)
CELL_KIND = {
    "Top": ("none",), "Operator": ("comb", {"inputs"}), "Part": ("comb", {"value", "offset"}),
    "Match": ("comb", {"en", "value"}), "AssignmentList": ("comb", {"default", "assignments"}),
    "FlipFlop": ("seq", {"clk", "arst"}),          # async reset reaches Q combinationally; data does not
    "AsyncReadPort": ("comb", {"addr"}), "SyncReadPort": ("seq", set()),
    "Initial": ("none",), "AnyValue": ("none",), "Instance": ("none",),   # opaque foreign cell: no edges assumed
    "IOBuffer": ("comb", {"o", "oe"}),
    # cells without outputs are never traversed: Memory, SyncWritePort, *Print, *Property
}
NO_OUTPUT = {"Memory", "SyncWritePort", "AsyncPrint", "SyncPrint", "AsyncProperty", "SyncProperty"}


# ----------------------------------------------------------------------------------------------- R-06a

def r06a(model, ctx):
    R = "R-06a"
    fn = model.func(f"{NIR}::Netlist.check_comb_cycles.traverse")
    adds = []
    for n in ast.walk(fn):
        if isinstance(n, ast.Call) and unparse(n.func) == "busy.add" and len(n.args) == 1:
            adds.append(n)
    need(len(adds) >= 1, "traverse: no busy.add() found")
    mod = model.mod(NIR)
    raises = [n for n in ast.walk(fn) if isinstance(n, ast.Raise) and "CombinationalCycle" in unparse(n)]
    need(len(raises) == 1, "traverse: `raise CombinationalCycle` not unique")
    guard = mod.parent(raises[0])
    while guard is not None and not isinstance(guard, ast.If):
        guard = mod.parent(guard)
    need(guard is not None, "traverse: raise is not guarded by an if")
    gtxt = unparse(guard.test)
    for a in adds:
        arg = a.args[0]
        src = unparse(arg)
        coll = None
        # loop variable -> its collection
        p = mod.parent(a)
        while p is not None and p is not fn:
            if isinstance(p, ast.For) and unparse(p.target) == src:
                coll = unparse(p.iter)
                break
            p = mod.parent(p)
        if coll is None:
            ok = f"cycle.start == {src}" in gtxt or f"{src} == cycle.start" in gtxt
            what = f"cycle.start == {src}"
        else:
            ok = f"cycle.start in {coll}" in gtxt or f"any(cycle.start == " in gtxt and coll in gtxt
            what = f"cycle.start in {coll}"
        ctx.check(ok, R, f"check_comb_cycles.traverse:busy.add({src})",
                  f"raise condition covers it ({what})",
                  f"`{src}`{' (from ' + coll + ')' if coll else ''} is marked busy in this frame, so a cycle can close on "
                  f"it, but the condition that raises CombinationalCycle is `{gtxt}` and never matches it: the Cycle "
                  f"object propagates to `assert traverse(net) is None` and surfaces as AssertionError (or is silently "
                  f"dropped under -O)", f"{NIR}:{a.lineno}")
    # the raise happens before the frame's nets are un-marked
    g = CFG(fn, inline_closures=False)
    rem = g.nodes_with(lambda n: isinstance(n, ast.Call) and unparse(n.func) == "busy.remove")
    rz = g.nodes(lambda s: s is raises[0])
    ok = bool(rem) and bool(rz) and all(rz[0] not in g.after(r) for r in rem)
    ctx.check(ok, R, "check_comb_cycles.traverse:raise-before-unmark", "raise precedes busy.remove",
              "the cycle must be raised before the frame's nets are removed from `busy`", f"{NIR}:{fn.lineno}")
    # every output net and every signal net is traversed
    fo = model.func(f"{NIR}::Netlist.check_comb_cycles")
    tops = [n for n in walk_no_nested(fo) if isinstance(n, ast.Call) and unparse(n.func) == "traverse"]
    iters = []
    for s in fo.body:
        if isinstance(s, ast.For):
            iters.append(unparse(s.iter))
    ok = len(tops) == 2 and "enumerate(self.cells)" in iters and "self.signals.values()" in iters
    ctx.check(ok, R, "check_comb_cycles:roots", "roots: every cell output net and every signal net",
              f"cycle detection must start from every cell output and every signal net; loops over {iters}", f"{NIR}:{fo.lineno}")


# ----------------------------------------------------------------------------------------------- R-06b

def r06b(model, ctx):
    R = "R-06b"
    fn = model.func(f"{IR}::build_netlist")
    g = CFG(fn, inline_closures=False)
    def site(name):
        return g.nodes_with(lambda n: isinstance(n, ast.Call) and unparse(n.func) == name)
    em, ck, rs = site("_emit_netlist"), site("netlist.check_comb_cycles"), site("netlist.resolve_all_nets")
    need(len(em) == 1 and len(rs) == 1, "build_netlist: _emit_netlist / resolve_all_nets sites not unique")
    ok = len(ck) >= 1 and g.must_pass(em[0], set(ck), targets=(rs[0],)) and all(g.dominates({em[0]}, c) for c in ck)
    ctx.check(ok, R, "build_netlist:check-between-emit-and-resolve",
              "check_comb_cycles() on every path between _emit_netlist() and resolve_all_nets()",
              "build_netlist must call netlist.check_comb_cycles() after _emit_netlist() and before "
              "resolve_all_nets() on every path (resolution of a cyclic netlist does not terminate / hides the cycle)",
              f"{IR}:{fn.lineno}")
    rets = [nid for nid in g.nodes() if isinstance(g.stmt[nid], ast.Return)]
    ok = bool(rets) and all(g.dominates(set(ck), r) for r in rets) if ck else False
    ctx.check(ok, R, "build_netlist:no-unchecked-return", "every return is dominated by the cycle check",
              "build_netlist has a return path that skips check_comb_cycles()", f"{IR}:{fn.lineno}")
    # emit_fragment: emit_drivers (where per-bit conflicts are raised) always runs for the top fragment
    fe = model.func(f"{IR}::NetlistEmitter.emit_fragment")
    hits = [s for s in ast.walk(fe) if isinstance(s, ast.If) and unparse(s.test) == "parent_module_idx is None"]
    ok = len(hits) == 1 and any("self.emit_drivers()" == unparse(x) for x in ast.walk(hits[0]) if isinstance(x, ast.Call))
    ctx.check(ok, R, "emit_fragment:emit_drivers-at-top", "emit_drivers() runs once for the top fragment",
              "emit_drivers() (driver conflict detection and connection of all drivers) must run for the top fragment",
              f"{IR}:{fe.lineno}")


# ----------------------------------------------------------------------------------------------- R-06c

def r06c(model, ctx):
    R = "R-06c"
    m = model.mod(IR)
    writers = []
    for n in ast.walk(m.tree):
        if isinstance(n, (ast.Assign, ast.AugAssign)):
            targets = n.targets if isinstance(n, ast.Assign) else [n.target]
            for t in targets:
                if isinstance(t, ast.Subscript) and unparse(t.value).endswith("netlist.connections"):
                    writers.append((n, m.qualname_of(n)))
        if isinstance(n, ast.Call) and isinstance(n.func, ast.Attribute) and \
                unparse(n.func.value).endswith("netlist.connections") and n.func.attr in ("update", "setdefault", "pop", "__setitem__", "clear"):
            writers.append((n, m.qualname_of(n)))
    allowed = {"NetlistEmitter.connect", "NetlistEmitter.emit_undriven"}
    need(writers, "no writer of netlist.connections found")
    for n, q in writers:
        ctx.check(q in allowed, R, f"connections-writer:{q}", "an allowed writer",
                  f"{q} writes netlist.connections directly; only connect() (behind the multiple-driver test) and "
                  f"emit_undriven() (only for undriven nets) may", f"{IR}:{n.lineno}")
    # other modules must not write it either
    for rel in model.all_files():
        if rel == IR:
            continue
        mm = model.mod(rel)
        for n in ast.walk(mm.tree):
            if isinstance(n, ast.Assign):
                for t in n.targets:
                    if isinstance(t, ast.Subscript) and unparse(t.value).endswith(".connections") and "netlist" in unparse(t.value):
                        ctx.viol(R, f"connections-writer:{rel}", f"{rel} writes netlist.connections outside _ir.NetlistEmitter.connect",
                                 f"{rel}:{n.lineno}")
    # connect(): the membership test raising DriverConflict dominates the write
    fc = model.func_view(f"{IR}::NetlistEmitter.connect")
    g = CFG(fc, inline_closures=False)
    wr = g.nodes(lambda s: isinstance(s, ast.Assign) and any(isinstance(t, ast.Subscript) and
                                                             unparse(t.value) == "self.netlist.connections" for t in s.targets))
    tests = [nid for nid in g.nodes() if isinstance(g.stmt[nid], ast.If) and
             pmatch("left in self.netlist.connections", g.stmt[nid].test) is not None]
    ok = len(wr) == 1 and len(tests) == 1
    if ok:
        ti = g.stmt[tests[0]]
        ok = any(isinstance(s, ast.Raise) and "DriverConflict" in unparse(s) for s in ti.body) and \
            g.dominates({tests[0]}, wr[0]) and unparse(g.stmt[wr[0]].targets[0]) == "self.netlist.connections[left]"
        # the raising branch cannot fall through to the write
        rz = [nid for nid in g.nodes() if isinstance(g.stmt[nid], ast.Raise)]
        ok = ok and all(wr[0] not in g.after(r) or True for r in rz) and \
            all(isinstance(ti.body[-1], ast.Raise) for _ in [0])
    ctx.check(ok, R, "NetlistEmitter.connect", "`if left in connections: raise DriverConflict` dominates the write",
              "connect() must refuse (raise DriverConflict) a net that already has a driver before writing "
              "netlist.connections[left]", f"{IR}:{fc.lineno}")
    fu = model.func(f"{IR}::NetlistEmitter.emit_undriven")
    ok = False
    for s in ast.walk(fu):
        if isinstance(s, ast.If) and "net not in self.netlist.connections" in unparse(s.test) and "net.is_late" in unparse(s.test):
            ok = any(isinstance(x, ast.Assign) and unparse(x.targets[0]) == "self.netlist.connections[net]" for x in s.body)
    if not ok:
        # by path, with locals propagated: every store into the connection table is reached only with `net.is_late` true and
        # `net` not yet in the table (nested ifs, one `and`, or a guard clause `if not late or connected: continue`)
        from ..engine.inline import propagate_locals as _pl
        from ..engine.astutil import parent_map as _pm, dominating_conditions as _dc
        fv = _pl(fu)
        pm_ = _pm(fv)
        stores = [x for x in ast.walk(fv) if isinstance(x, ast.Assign) and unparse(x.targets[0]) == "self.netlist.connections[net]"]
        need(stores, "emit_undriven: the store into netlist.connections was not found")
        ok = True
        for st in stores:
            facts = set()
            for t, pol in _dc(pm_, st, fv):
                tx = unparse(t)
                if pol and tx in ("net.is_late", "net not in self.netlist.connections"):
                    facts.add(tx)
                if pol and tx in ("net.is_late and net not in self.netlist.connections", "net not in self.netlist.connections and net.is_late"):
                    facts |= {"net.is_late", "net not in self.netlist.connections"}
                if not pol and tx in ("not net.is_late or net in self.netlist.connections", "net in self.netlist.connections or not net.is_late"):
                    facts |= {"net.is_late", "net not in self.netlist.connections"}
                if not pol and tx == "net in self.netlist.connections":
                    facts.add("net not in self.netlist.connections")
                if not pol and tx == "not net.is_late":
                    facts.add("net.is_late")
            ok = ok and facts == {"net.is_late", "net not in self.netlist.connections"}
    ctx.check(ok, R, "NetlistEmitter.emit_undriven", "writes only nets that are late and not yet connected",
              "emit_undriven() may only connect late nets that have no driver yet", f"{IR}:{fu.lineno}")
    # emit_io: result reaches cells only through emit_io_use (except the declaration pre-pass)
    users = []
    for n in ast.walk(m.tree):
        if isinstance(n, ast.Call) and unparse(n.func) == "self.emit_io":
            users.append((m.qualname_of(n), n.lineno))
    bad = [(q, l) for q, l in users if q not in ("NetlistEmitter.emit_io", "NetlistEmitter.emit_io_use", "NetlistEmitter.emit_fragment")]
    ctx.check(not bad, R, "emit_io:callers", f"callers: {sorted({q for q, _ in users})}",
              f"emit_io() results must reach cells only through emit_io_use() (the single-use check); direct callers: {bad}",
              f"{IR}:{users[0][1] if users else 0}")
    # emit_io_use: per I/O bit, check-then-record (path summaries of the loop body with NetlistEmitter's helpers expanded):
    # a bit already in ionet_src_loc raises DriverConflict, a new one is recorded; nothing is recorded on the raising path
    from ..engine import refsem
    fi = model.func(f"{IR}::NetlistEmitter.emit_io_use")
    loops = [x for x in fi.body if isinstance(x, ast.For)]
    need(len(loops) == 1 and isinstance(loops[0].target, ast.Name), "emit_io_use: per-net loop not found")
    v = loops[0].target.id
    table = refsem.inline_table(model, IR, "NetlistEmitter", exclude=("emit_io_use", "emit_io"))
    lp = run_paths(list(loops[0].body), inline=table, depth=3)
    need(lp, "emit_io_use: loop body has no path")
    ok = True
    n_raise = n_store = 0
    for p in lp:
        member = None
        for t, pol in p.conds:
            tx = unparse(t)
            if tx == f"{v} in self.ionet_src_loc":
                member = pol
            elif tx == f"{v} not in self.ionet_src_loc":
                member = not pol
        stores = [e for e in p.effects if isinstance(e, ast.Assign) and any(unparse(t_) == f"self.ionet_src_loc[{v}]" for t_ in e.targets)]
        if p.how == "raise":
            n_raise += 1
            ok = ok and member is True and not stores and p.ret is not None and "DriverConflict" in unparse(p.ret)
        else:
            n_store += 1
            ok = ok and member is False and len(stores) == 1 and unparse(stores[0].value) == "src_loc"
    ok = ok and n_raise >= 1 and n_store >= 1
    ctx.check(ok, R, "NetlistEmitter.emit_io_use", "second use of an I/O bit raises DriverConflict",
              "emit_io_use() must record each I/O bit on first use and raise DriverConflict on a second use", f"{IR}:{fi.lineno}")
    # the fragment kinds that consume I/O go through emit_io_use
    for meth in ("emit_iobuffer", "emit_instance"):
        f2 = model.func(f"{IR}::NetlistEmitter.{meth}")
        ok = any(isinstance(n, ast.Call) and unparse(n.func) == "self.emit_io_use" for n in ast.walk(f2))
        ctx.check(ok, R, f"{meth}:uses-emit_io_use", "I/O values go through the single-use gate",
                  f"{meth} must obtain I/O nets through emit_io_use()", f"{IR}:{f2.lineno}")
    # instance/memory/buffer outputs are connected through connect() (so logic+instance conflicts are caught)
    for meth in ("emit_iobuffer", "emit_instance", "emit_read_port", "emit_drivers", "emit_top_ports"):
        from ..engine.inline import reachable_helpers
        f2 = model.func(f"{IR}::NetlistEmitter.{meth}")
        ok = any(isinstance(n, ast.Call) and unparse(n.func) == "self.connect"
                 for f_ in reachable_helpers(model, f"{IR}::NetlistEmitter.{meth}") for n in ast.walk(f_))
        ctx.check(ok, R, f"{meth}:connects-through-connect", "drives signals via connect()",
                  f"{meth} must drive signal nets through connect()", f"{IR}:{f2.lineno}")


# ----------------------------------------------------------------------------------------------- R-06d

def _eval_bool(e, env):
    """evaluate a boolean over `self.operator` / `len(self.inputs)` for a concrete (op, arity); None if unknown"""
    if isinstance(e, ast.Constant) and isinstance(e.value, bool):
        return e.value
    if isinstance(e, ast.BoolOp):
        vals = [_eval_bool(v, env) for v in e.values]
        if isinstance(e.op, ast.And):
            if any(v is False for v in vals):
                return False
            return True if all(v is True for v in vals) else None
        if any(v is True for v in vals):
            return True
        return False if all(v is False for v in vals) else None
    if isinstance(e, ast.UnaryOp) and isinstance(e.op, ast.Not):
        v = _eval_bool(e.operand, env)
        return None if v is None else not v
    # a call to a sibling predicate of the cell class (e.g. Operator.comb_edges_is_per_bit(self)): evaluate its body
    if isinstance(e, ast.Call) and env is not None and env.get("predicates") and \
            (dotted(e.func) or "").split(".")[-1] in env["predicates"]:
        pred = env["predicates"][(dotted(e.func) or "").split(".")[-1]]
        env2 = {k: v for k, v in env.items() if k != "predicates"}
        vals = {_eval_bool(p.ret, env2) for p in run_paths(pred.body, decide=lambda t: _eval_bool(t, env2)) if p.how == "return"}
        return vals.pop() if len(vals) == 1 else None
    if isinstance(e, ast.Compare) and len(e.ops) == 1:
        l, o, r = e.left, e.ops[0], e.comparators[0]
        lv = None
        if unparse(l) == "self.operator":
            lv = env["op"]
        elif unparse(l) == "len(self.inputs)":
            lv = env["arity"]
        if lv is None:
            return None
        rv = const_str(r) if isinstance(lv, str) else const_int(r)
        if isinstance(o, (ast.In, ast.NotIn)) and isinstance(lv, int) and isinstance(r, (ast.Tuple, ast.List, ast.Set)) and \
                all(const_int(x) is not None for x in r.elts):
            hit = lv in [const_int(x) for x in r.elts]
            return hit if isinstance(o, ast.In) else not hit
        if isinstance(o, ast.NotIn) and isinstance(lv, str) and str_elts(r) is not None:
            return lv not in str_elts(r)
        if isinstance(o, ast.Eq) and rv is not None:
            return lv == rv
        if isinstance(o, ast.NotEq) and rv is not None:
            return lv != rv
        if isinstance(o, ast.In) and isinstance(lv, str):
            if str_elts(r) is not None:
                return lv in str_elts(r)
            if const_str(r) is not None:
                return lv in const_str(r)
    return None


def _yields_on(fn, env):
    """(yield expressions reachable for env, uses_bit, filtered) using constant folding on operator/arity tests"""
    out = []
    filtered = []

    def walk(stmts, under_filter):
        for s in stmts:
            if isinstance(s, ast.If):
                v = _eval_bool(s.test, env) if env is not None else None
                if v is True:
                    walk(s.body, under_filter)
                elif v is False:
                    walk(s.orelse, under_filter)
                else:
                    walk(s.body, under_filter + [s.test])
                    walk(s.orelse, under_filter + [s.test])
            elif isinstance(s, (ast.For, ast.While)):
                walk(s.body, under_filter)
            elif isinstance(s, ast.Assert):
                continue
            else:
                for n in ast.walk(s):
                    if isinstance(n, ast.Yield) and n.value is not None:
                        out.append(n.value)
                        if under_filter:
                            filtered.append((n, under_filter))
                    if isinstance(n, ast.Return) and n.value is not None and not isinstance(n.value, ast.List):
                        out.append(n.value)
    walk(fn.body, [])
    return out, filtered


def r06d(model, ctx):
    R = "R-06d"
    classes = {c.name: c for c in c04._cell_classes(model)}
    need(len(classes) >= 18, "cell classes not found")
    for name, c in sorted(classes.items()):
        ms = model.class_methods(c)
        if name in NO_OUTPUT:
            # never traversed (no outputs): must really have no outputs
            out = ms.get("output_nets")
            ok = out is not None and any(isinstance(s, ast.Return) and unparse(s.value) == "set()" for s in out.body)
            ctx.check(ok, R, f"{name}:no-outputs", "output_nets() is empty, so it is never a cycle node",
                      f"{name} is classified as output-less but output_nets() is not `set()`", f"{NIR}:{c.lineno}")
            continue
        if name not in CELL_KIND:
            raise AnalysisError(f"{NIR}:{c.lineno}: netlist cell class {name} is not classified (comb/seq/none) in the C06 rule table")
        ce, pb = ms.get("comb_edges_to"), ms.get("comb_edges_is_per_bit")
        need(ce is not None and pb is not None, f"{name}: comb_edges_to / comb_edges_is_per_bit missing")
        kind = CELL_KIND[name]
        if name == "Operator":
            uni = c04.nir_operator_universe(model)
            for (op, n) in sorted(uni):
                env = {"op": op, "arity": n, "predicates": {"comb_edges_is_per_bit": pb}}
                ys, filt = _yields_on(ce, env)
                uses_bit = any("bit" in names_in(y) for y in ys)
                env_pb = {"op": op, "arity": n}
                paths = [p for p in run_paths(pb.body, decide=lambda t, env=env_pb: _eval_bool(t, env)) if p.how == "return"]
                vals = {_eval_bool(p.ret, env_pb) for p in paths}
                need(len(vals) == 1 and None not in vals, f"Operator.comb_edges_is_per_bit: cannot evaluate for {op!r}/{n}")
                per_bit = vals.pop()
                ctx.check(per_bit == uses_bit, R, f"Operator:{op}/{n}:per-bit-iff",
                          f"comb_edges_is_per_bit={per_bit}, comb_edges_to depends on bit={uses_bit}",
                          f"for netlist operator {op!r}/{n} comb_edges_is_per_bit() returns {per_bit} but comb_edges_to "
                          f"{'depends' if uses_bit else 'does not depend'} on `bit`: with per-bit edges and per-bit=False "
                          f"the sibling output bits are marked checked without traversing their own edges (missed "
                          f"cycles, false cycles on cross-bit feedback)", f"{NIR}:{pb.lineno}")
                # all inputs present: each of the n inputs appears
                idxs = set()
                for y in ys:
                    for m_ in find_matches("self.inputs[_V_I]", y):
                        if const_int(m_[1]["_V_I"]) is not None:
                            idxs.add(const_int(m_[1]["_V_I"]))
                # loops `for net in self.inputs[i]` are found through the enclosing For
                for s in ast.walk(ce):
                    if isinstance(s, ast.For):
                        mm = pmatch("self.inputs[_V_I]", s.iter)
                        if mm is not None and const_int(mm["_V_I"]) is not None:
                            # only count if reachable for env
                            pass
                reach_idx = _reachable_input_indices(ce, env)
                ctx.check(reach_idx == set(range(n)), R, f"Operator:{op}/{n}:all-inputs",
                          f"edges from inputs {sorted(reach_idx)}",
                          f"netlist operator {op!r}/{n}: comb_edges_to yields edges from inputs {sorted(reach_idx)}, "
                          f"expected all of {list(range(n))}", f"{NIR}:{ce.lineno}")
            continue
        if name == "AssignmentList":
            from ..engine.inline import propagate_locals
            ce = propagate_locals(ce)       # hoisted sub-expressions (e.g. offset = bit - assign.start) are put back
        ys, filt = _yields_on(ce, None)
        uses_bit = any("bit" in names_in(y) for y in ys) or any("bit" in names_in(t) for _, fs in filt for t in fs)
        rets = [s for s in ast.walk(pb) if isinstance(s, ast.Return)]
        need(len(rets) == 1 and isinstance(rets[0].value, ast.Constant), f"{name}.comb_edges_is_per_bit is not a constant return")
        per_bit = rets[0].value.value
        ctx.check(per_bit == uses_bit, R, f"{name}:per-bit-iff",
                  f"comb_edges_is_per_bit={per_bit}, comb_edges_to depends on bit={uses_bit}",
                  f"{name}.comb_edges_is_per_bit() returns {per_bit} but comb_edges_to "
                  f"{'depends' if uses_bit else 'does not depend'} on `bit` (docstring: True iff comb_edges_to looks at "
                  f"its argument)", f"{NIR}:{pb.lineno}")
        attrs = {n.attr for y in ys for n in ast.walk(y) if isinstance(n, ast.Attribute) and unparse(n.value) == "self"
                 and n.attr != "src_loc"}
        for s in ast.walk(ce):
            if isinstance(s, ast.For):
                for n in ast.walk(s.iter):
                    if isinstance(n, ast.Attribute) and unparse(n.value) == "self":
                        attrs.add(n.attr)
        if kind[0] == "comb":
            ctx.check(attrs >= kind[1], R, f"{name}:comb-inputs", f"comb edges from {sorted(attrs)}",
                      f"{name} is combinational: every input ({sorted(kind[1])}) must be a comb edge source, found "
                      f"{sorted(attrs)}", f"{NIR}:{ce.lineno}")
            # no filtering of edges except the AssignmentList window and IOBuffer direction test
            for y, fs in filt:
                ftxt = [unparse(t) for t in fs]
                from ..engine.norm import inequality_set
                win = inequality_set(ast.parse("bit >= assign.start and bit < assign.start + len(assign.value)", mode="eval").body)
                ok = (name == "AssignmentList" and len(fs) == 1 and inequality_set(fs[0]) == win) or \
                     (name == "IOBuffer" and ftxt == ["self.dir is not IODirection.Input"])
                ctx.check(ok, R, f"{name}:unfiltered-edges:{unparse(y.value)[:40]}", f"edge filter {ftxt} is an enumerated idiom",
                          f"{name}.comb_edges_to drops edges under the condition {ftxt}: a combinational cell's output "
                          f"depends on all bits of its inputs (e.g. a Match output also depends on the bits tested by "
                          f"earlier, higher-priority patterns)", f"{NIR}:{y.lineno}")
            if not filt:
                ctx.ok(R, f"{name}:unfiltered-edges", "no conditional edges", f"{NIR}:{ce.lineno}")
        elif kind[0] == "seq":
            ctx.check(attrs <= kind[1], R, f"{name}:seq-no-data-edges", f"comb edges only from {sorted(attrs)}",
                      f"{name} is sequential: only {sorted(kind[1])} may be comb edge sources, found {sorted(attrs)}",
                      f"{NIR}:{ce.lineno}")
            if "arst" in kind[1]:
                # an asynchronous reset reaches the output without a clock edge: it is a combinational edge, for every net
                # (check_comb_cycles runs before late-bound nets are resolved, so nothing about the net may be assumed)
                gated = [unparse(t) for y, fs in filt if "arst" in unparse(y.value) for t in fs]
                ctx.check("arst" in attrs and not gated, R, f"{name}:arst-edge", "arst -> output is an unconditional comb edge",
                          f"{name}.comb_edges_to must yield the asynchronous reset as an edge unconditionally (found sources "
                          f"{sorted(attrs)}, conditions {gated}): otherwise a loop q -> logic -> arst -> q is accepted",
                          f"{NIR}:{ce.lineno}")
        else:
            ctx.check(not attrs, R, f"{name}:no-edges", "no comb edges", f"{name} must have no comb edges, found {sorted(attrs)}",
                      f"{NIR}:{ce.lineno}")
    # traverse(): per-bit flag is consulted before edges; extra nets are all other outputs of the cell
    ft = model.func(f"{NIR}::Netlist.check_comb_cycles.traverse")
    # every net entered is marked busy — unconditionally, whatever its kind — before anything is followed from it, and the
    # mark is taken off with remove() (a discard() hides a net that was never marked): a loop made of wiring only (late-bound
    # nets, no cell) is otherwise followed for ever
    from ..engine.astutil import parent_map, dominating_conditions
    pmt = parent_map(ft)
    adds = [c for c in ast.walk(ft) if isinstance(c, ast.Call) and unparse(c.func) == "busy.add" and unparse(c.args[0]) == "net"]
    rec = [c for c in ast.walk(ft) if isinstance(c, ast.Call) and unparse(c.func) == "traverse"]
    need(rec, "traverse: the recursive calls were not found")
    def _stmt_of(n):
        while n is not None and not isinstance(n, ast.stmt):
            n = pmt.get(n)
        return n
    conds_add = [unparse(t) for a in adds for t, pol in dominating_conditions(pmt, _stmt_of(a), ft)
                 if unparse(t) not in ("net in checked", "net in busy")]
    okb = len(adds) == 1 and not conds_add and all(adds[0].lineno < r.lineno for r in rec if r.lineno > ft.lineno + 1) and \
        not any(isinstance(c, ast.Call) and unparse(c.func) == "busy.discard" for c in ast.walk(ft))
    ctx.check(okb, R, "traverse:busy-mark", "every net is marked busy before its sources are followed, and unmarked with remove()",
              f"traverse must mark every net it enters as busy (found busy.add(net) under {conds_add or 'no condition'}) before "
              f"recursing: with late-bound nets left unmarked a cycle through plain wiring (a.eq(b); b.eq(a)) is never closed and the "
              f"traversal recurses until it crashes instead of raising CombinationalCycle", f"{NIR}:{ft.lineno}")
    ifs = [s for s in ast.walk(ft) if isinstance(s, ast.If) and pmatch("not cell.comb_edges_is_per_bit()", s.test) is not None]
    ok = len(ifs) == 1 and any(isinstance(n, ast.Call) and unparse(n.func) == "cell.output_nets" for n in ast.walk(ifs[0])) \
        and any(isinstance(n, ast.Call) and unparse(n.func) == "busy.add" for n in ast.walk(ifs[0]))
    loops = [s for s in ast.walk(ft) if isinstance(s, ast.For) and pmatch("cell.comb_edges_to(net.bit)", s.iter) is not None]
    ok = ok and len(loops) == 1
    ctx.check(ok, R, "traverse:uses-relation", "non-per-bit cells mark all sibling outputs busy; edges from comb_edges_to(net.bit)",
              "traverse must mark all sibling outputs of a non-per-bit cell busy and follow comb_edges_to(net.bit)",
              f"{NIR}:{ft.lineno}")


def _reachable_input_indices(fn, env):
    idx = set()

    def walk(stmts):
        for s in stmts:
            if isinstance(s, ast.If):
                v = _eval_bool(s.test, env)
                if v is True:
                    walk(s.body)
                elif v is False:
                    walk(s.orelse)
                else:
                    walk(s.body)
                    walk(s.orelse)
            elif isinstance(s, ast.For):
                m = pmatch("self.inputs[_V_I]", s.iter)
                has_yield = any(isinstance(n, ast.Yield) for n in ast.walk(s))
                if m is not None and const_int(m["_V_I"]) is not None and has_yield:
                    idx.add(const_int(m["_V_I"]))
                if unparse(s.iter) == "self.inputs" and isinstance(s.target, ast.Name):
                    # the loop variable stands for every input: a yield that mentions it covers all of them
                    v = s.target.id
                    if any(isinstance(n, ast.Yield) and n.value is not None and v in names_in(n.value) for n in ast.walk(s)) or \
                            any(isinstance(l2, ast.For) and unparse(l2.iter) == v and any(isinstance(n, ast.Yield) for n in ast.walk(l2))
                                for l2 in ast.walk(s)):
                        idx.update(range(env["arity"]))
                walk(s.body)
            elif isinstance(s, ast.Assert):
                continue
            else:
                for n in ast.walk(s):
                    if isinstance(n, ast.Yield) and n.value is not None:
                        for _n, b in find_matches("self.inputs[_V_I]", n.value):
                            if const_int(b["_V_I"]) is not None:
                                idx.add(const_int(b["_V_I"]))
    walk(fn.body)
    return idx


# ----------------------------------------------------------------------------------------------- R-06e

def r06e(model, ctx):
    R = "R-06e"
    fn = model.func(f"{DSL}::Module._add_statement")
    loops = [s for s in ast.walk(fn) if isinstance(s, ast.For) and unparse(s.iter) == "range(len(sig))"]
    ok = len(loops) == 1
    if ok:
        b = loops[0].body
        txt = [unparse(s) for s in b]
        ok = len(b) == 3 and txt[0].startswith("if not mask & 1 << bit:\n    continue") and \
            txt[1].startswith("if sig_domain[bit] is None:\n    sig_domain[bit] = domain") and \
            txt[2].startswith("if sig_domain[bit] != domain:\n    raise SyntaxError")
    ctx.check(ok, R, "Module._add_statement:per-bit-domain", "for each masked bit: claim domain, raise on mismatch",
              "the early check must, for every bit in the statement's mask, record the driving domain and raise "
              "SyntaxError if the bit is already driven from another domain", f"{DSL}:{fn.lineno}")
    # emit_drivers: conflicts between (module, domain) pairs on one bit are raised
    from ..engine.inline import reachable_helpers
    from ..engine.astutil import parent_map
    from ..engine.bitalg import canon
    fd = model.func(f"{IR}::NetlistEmitter.emit_drivers")
    scope = ast.Module(body=reachable_helpers(model, f"{IR}::NetlistEmitter.emit_drivers"), type_ignores=[])
    pm = parent_map(scope)
    rz = [n for n in ast.walk(scope) if isinstance(n, ast.Raise) and "DriverConflict" in unparse(n) and "driven from" in unparse(n)]
    conds = set()
    for r in rz:
        p = pm.get(r)
        while p is not None and not isinstance(p, ast.If):
            p = pm.get(p)
        need(p is not None, "emit_drivers: a DriverConflict raise without a guard")
        conds.add(canon(p.test))
    ok = conds == {canon("other_domain != driver.domain"), canon("other_module_idx != driver.module_idx")}
    ctx.check(ok, R, "emit_drivers:module/domain-conflicts", "raises for a second driver from another domain or module",
              f"emit_drivers must raise DriverConflict when a bit is driven from a different domain or a different "
              f"module; guards found: {sorted(map(repr, conds))}", f"{IR}:{fd.lineno}")


def r06f(model, ctx):
    """emit_drivers' whole-signal shortcut: a single (module, domain) driver may claim every bit of the signal only when NO
    net of the signal is connected yet (an Instance / read port / I/O buffer output may already drive some of them)"""
    from ..engine.bitalg import quantifier_norm
    R = "R-06f"
    fd = model.func_view(f"{IR}::NetlistEmitter.emit_drivers", depth=3)
    hits = []
    for st in ast.walk(fd):
        if isinstance(st, ast.If) and any(isinstance(x, ast.Assign) and unparse(x.targets[0]) == "driver_mask" and
                                          "(1 << len(sig)) - 1" in unparse(x.value) for x in st.body):
            hits.append(st)
    need(len(hits) == 1, "emit_drivers: the whole-signal shortcut (driver_mask = all ones) was not found")
    test = hits[0].test
    conj = test.values if isinstance(test, ast.BoolOp) and isinstance(test.op, ast.And) else [test]
    quants = [quantifier_norm(c) for c in conj]
    want = quantifier_norm(ast.parse("all(net not in self.netlist.connections for net in lhs)", mode="eval").body)
    single = any(unparse(c) == "len(sig_drivers) == 1" for c in conj)
    ok = single and want in quants and len(conj) == 2
    ctx.check(ok, R, "emit_drivers:whole-signal-shortcut", "taken only for a single driver and when no net of the signal is connected yet",
              f"the shortcut that lets one driver claim the whole signal must require `len(sig_drivers) == 1 and all(net not in "
              f"connections for net in lhs)`; found `{unparse(test)}`: with a weaker test a signal partly driven by an instance or "
              f"memory output is claimed entirely and a legal design is rejected with DriverConflict (or a conflict is missed)",
              f"{IR}:{hits[0].lineno}")


RULES = [("R-06f", r06f), ("R-06a", r06a), ("R-06b", r06b), ("R-06c", r06c), ("R-06d", r06d), ("R-06e", r06e)]
