"""C13 — asynchronous FIFOs (structural necessary conditions, decided on the elaborate() bodies)."""
import ast
from ..engine.core import AnalysisError, need
from ..engine.symx import run_paths
from ..engine.astutil import unparse, dotted, pmatch, const_int, dump
from ..engine.hdlmodel import ElabModel

FIFO = "amaranth/lib/fifo.py"
CDC = "amaranth/lib/cdc.py"

EXPLANATION = (
    "Static (ast-only) decision of structural necessary conditions of C13 on AsyncFIFO/AsyncFIFOBuffered (E7 "
    "Module-DSL analyser): (a) acceptance gating — the binary counters advance by the accepted strobes "
    "(w_rdy & w_en, r_rdy & r_en) and the storage write enable is the accepted write; (b) side placement — every "
    "register of the confirmed table is assigned only in its own side's domain (m.d[self._w_domain] / "
    "m.d[self._r_domain]), the Gray pointers cross through FFSynchronizers targeting the opposite domain and the "
    "write-domain reset through an AsyncFFSynchronizer into the read domain; what crosses is the *Gray* register; "
    "(c) elaborability — every constant bit index applied to a signal whose width is derived from constructor "
    "arithmetic is below the least width that arithmetic allows on the path where it is used (interval analysis "
    "over `ceil_log2`, `1 <<`, `+c`, the `depth == 0` early return and Python `if` guards); (d) counter widths and "
    "the power-of-two rounding of the depth; (e) the Gray helpers, interpreted in the GF(2)-affine bit domain for every "
    "pointer width 1..33: encode is v ^ (v >> 1) and decode inverts it; (f) start-up ordering of the synchronisers: the "
    "read-side reset is released no later than the write pointer's crossing latency (stage counts resolved from the "
    "call keywords or the constructor defaults in lib/cdc.py). NOT decided: safety under clock interleavings."
)
ASSUMPTIONS = ["CPython ast parses /repo's source as the interpreter would",
               "ceil_log2(x) >= 0 for x >= 0, and ceil_log2(x) >= 1 for x >= 2 (used as interval facts)"]
MIN_INSTANCES = {"R-13e": 2, "R-13f": 4, "R-13a": 4, "R-13b": 14, "R-13c": 3, "R-13d": 4}

W_SIDE = ["produce_w_bin", "produce_w_gry", "consume_w_bin", "self.w_level"]
R_SIDE = ["consume_r_bin", "consume_r_gry", "self.r_rst"]


def _main_model(fn):
    """model restricted to the general configuration (after the `self.depth == 0` early return)"""
    em = ElabModel(fn)
    em.assigns = [a for a in em.assigns if not any(p and unparse(t) == "self.depth == 0" for t, p in a.pyconds)]
    return em


def r13a(model, ctx):
    R = "R-13a"
    fn = model.func_expanded(f"{FIFO}::AsyncFIFO.elaborate", depth=3, exclude=("_gray_encode", "_gray_decode", "_incr"))
    em = _main_model(fn)
    for cnt, strobe, side in (("produce_w_nxt", {"self.w_en", "self.w_rdy"}, "write"), ("consume_r_nxt", {"self.r_en", "self.r_rdy"}, "read")):
        a = em.assigns_to(cnt, "comb")
        need(len(a) == 1, f"AsyncFIFO: comb assignment to {cnt} not unique")
        s = em.support(a[0].rhs)
        ctx.check(strobe <= s, R, f"AsyncFIFO:{cnt}", f"next {side} counter = counter + accepted strobe",
                  f"AsyncFIFO: {cnt} = {unparse(a[0].rhs)} does not depend on {sorted(strobe - s)}: the {side} counter would "
                  f"advance on a refused strobe", f"{FIFO}:{a[0].lineno}")
        reg = cnt.replace("_nxt", "_bin")
        okr = pmatch(f"{reg} + _V_S", a[0].rhs) is not None
        ctx.check(okr, R, f"AsyncFIFO:{cnt}:form", f"{reg} + strobe", f"{cnt} must be {reg} + <accepted strobe>", f"{FIFO}:{a[0].lineno}")
    a = em.assigns_to("w_port.en", "comb")
    need(len(a) == 1, "AsyncFIFO: w_port.en assignment not unique")
    s = em.support(a[0].rhs)
    ctx.check({"self.w_en", "self.w_rdy"} <= s, R, "AsyncFIFO:w_port.en", "storage written only for an accepted write",
              f"AsyncFIFO: the storage write enable `{unparse(a[0].rhs)}` does not depend on "
              f"{sorted({'self.w_en', 'self.w_rdy'} - s)}", f"{FIFO}:{a[0].lineno}")
    exp = {"self.w_rdy": "~w_full", "self.r_rdy": "~r_empty", "w_port.addr": "produce_w_bin[:-1]", "w_port.data": "self.w_data",
           "r_port.addr": "consume_r_nxt[:-1]", "self.r_data": "r_port.data"}
    for t, rhs in exp.items():
        h = em.assigns_to(t, "comb")
        ok = len(h) == 1 and unparse(h[0].rhs) == rhs and not h[0].guards
        ctx.check(ok, R, f"AsyncFIFO:{t}", rhs, f"AsyncFIFO: {t} must be `{rhs}`; found {[unparse(x.rhs) for x in h]}", f"{FIFO}:{fn.lineno}")
    h = [x for x in em.assigns_to("r_empty", "comb") if not x.guards]
    ok = len(h) == 1 and unparse(h[0].rhs) == "consume_r_gry == produce_r_gry"
    ctx.check(ok, R, "AsyncFIFO:r_empty", "empty iff read pointer equals the synchronised write pointer",
              "r_empty must compare consume_r_gry with produce_r_gry (both in the read domain)", f"{FIFO}:{fn.lineno}")


def r13b(model, ctx):
    R = "R-13b"
    fn = model.func_expanded(f"{FIFO}::AsyncFIFO.elaborate", depth=3, exclude=("_gray_encode", "_gray_decode", "_incr"))
    em = _main_model(fn)
    for regs, dom, other in ((W_SIDE, "self._w_domain", "self._r_domain"), (R_SIDE, "self._r_domain", "self._w_domain")):
        for reg in regs:
            asg = [a for a in em.assigns if a.target_text == reg]
            need(asg, f"AsyncFIFO: no assignment to {reg}")
            bad = [a for a in asg if a.domain != dom]
            ctx.check(not bad, R, f"AsyncFIFO:{reg}:domain", f"assigned only in m.d[{dom}]",
                      f"AsyncFIFO: {reg} belongs to the {'write' if dom.endswith('w_domain') else 'read'} side but is assigned in "
                      f"domain {sorted({a.domain for a in bad})} (line {bad[0].lineno if bad else 0}): a register clocked by the "
                      f"wrong side is sampled asynchronously", f"{FIFO}:{asg[0].lineno}")
    # synchronisers
    subs = {s.name: s for s in em.submodules if s.name}
    spec = {"produce_cdc": ("FFSynchronizer", "produce_w_gry", "produce_r_gry", "self._r_domain"),
            "consume_cdc": ("FFSynchronizer", "consume_r_gry", "consume_w_gry", "self._w_domain"),
            "rst_cdc": ("AsyncFFSynchronizer", "w_rst", "r_rst", "self._r_domain")}
    for name, (cls, i, o, dom) in spec.items():
        s = subs.get(name)
        ok = s is not None and isinstance(s.call, ast.Call) and dotted(s.call.func) == cls and len(s.call.args) >= 2 and \
            unparse(s.call.args[0]) == i and unparse(s.call.args[1]) == o and \
            {k.arg: unparse(k.value) for k in s.call.keywords}.get("o_domain") == dom
        ctx.check(ok, R, f"AsyncFIFO:{name}", f"{cls}({i} -> {o}, o_domain={dom})",
                  f"AsyncFIFO: {name} must be {cls}({i}, {o}, o_domain={dom}) — the Gray pointer of one side resynchronised into "
                  f"the *other* side's domain; found {unparse(s.call) if s else 'nothing'}", f"{FIFO}:{s.lineno if s else fn.lineno}")
    # what crosses is the Gray-encoded next pointer, registered in its own domain
    for reg, src in (("produce_w_gry", "produce_w_nxt"), ("consume_r_gry", "consume_r_nxt")):
        a = [x for x in em.assigns_to(reg) if not x.guards]
        ok = len(a) == 1 and unparse(a[0].rhs) == f"_gray_encode({src})"
        ctx.check(ok, R, f"AsyncFIFO:{reg}:gray", f"registered Gray code of {src}",
                  f"AsyncFIFO: {reg} must register _gray_encode({src}) (a registered Gray pointer is what may cross domains)",
                  f"{FIFO}:{fn.lineno}")
    a = em.assigns_to("consume_w_bin")
    ok = len(a) == 1 and unparse(a[0].rhs) == "_gray_decode(consume_w_gry)"
    ctx.check(ok, R, "AsyncFIFO:consume_w_bin", "decoded from the synchronised read pointer",
              "consume_w_bin must be _gray_decode(consume_w_gry)", f"{FIFO}:{fn.lineno}")
    a = em.assigns_to("produce_r_bin", "comb")
    ok = len(a) == 1 and unparse(a[0].rhs) == "_gray_decode(produce_r_gry)"
    ctx.check(ok, R, "AsyncFIFO:produce_r_bin", "decoded from the synchronised write pointer",
              "produce_r_bin must be _gray_decode(produce_r_gry)", f"{FIFO}:{fn.lineno}")
    lv = em.assigns_to("self.w_level")
    ok = len(lv) == 1 and unparse(lv[0].rhs) == "produce_w_bin - consume_w_bin"
    ctx.check(ok, R, "AsyncFIFO:w_level", "produce_w_bin - consume_w_bin (both write side)",
              "w_level must be computed from write-side values only", f"{FIFO}:{fn.lineno}")
    lv = em.assigns_to("self.r_level")
    ok = len(lv) == 1 and unparse(lv[0].rhs) == "produce_r_bin - consume_r_bin" and lv[0].domain == "comb"
    ctx.check(ok, R, "AsyncFIFO:r_level", "produce_r_bin - consume_r_bin (both read side)",
              "r_level must be computed from read-side values only", f"{FIFO}:{fn.lineno}")
    # storage ports in their side's domain
    for port, dom in (("w_port", "self._w_domain"), ("r_port", "self._r_domain")):
        c = em.aliases.get(port)
        ok = c is not None and f"domain={dom}" in unparse(c)
        ctx.check(ok, R, f"AsyncFIFO:{port}:domain", dom, f"AsyncFIFO: {port} must be in {dom}", f"{FIFO}:{fn.lineno}")
    # reset handling on the read side
    rs = [a for a in em.assigns if any(unparse(c) == "r_rst" and p for c, p in a.guards)]
    got = {(a.domain, a.target_text, unparse(a.rhs)) for a in rs}
    want = {("comb", "r_empty", "1"), ("self._r_domain", "consume_r_gry", "produce_r_gry"),
            ("self._r_domain", "consume_r_bin", "_gray_decode(produce_r_gry)"), ("self._r_domain", "self.r_rst", "1")}
    ctx.check(got == want, R, "AsyncFIFO:read-side-reset", "on r_rst: empty, read pointer := write pointer",
              f"AsyncFIFO: read-side reset handling deviates: {sorted(got ^ want)}", f"{FIFO}:{fn.lineno}")
    # buffered wrapper
    fb = model.func_expanded(f"{FIFO}::AsyncFIFOBuffered.elaborate", depth=3, exclude=("_gray_encode", "_gray_decode", "_incr"))
    eb = _main_model(fb)
    for reg in ("self.r_data", "self.r_rdy", "self.r_rst", "self.r_level"):
        asg = [a for a in eb.assigns if a.target_text == reg]
        need(asg, f"AsyncFIFOBuffered: no assignment to {reg}")
        bad = [a for a in asg if a.domain != "self._r_domain"]
        ctx.check(not bad, R, f"AsyncFIFOBuffered:{reg}:domain", "read domain", f"AsyncFIFOBuffered: {reg} must be registered in the "
                  f"read domain; found {sorted({a.domain for a in bad})}", f"{FIFO}:{asg[0].lineno}")
    subs = {s.name: s for s in eb.submodules if s.name}
    s = subs.get("unbuffered")
    ok = s is not None and "depth=self.depth - 1" in unparse(s.call) and "r_domain=self._r_domain" in unparse(s.call) and \
        "w_domain=self._w_domain" in unparse(s.call)
    ctx.check(ok, R, "AsyncFIFOBuffered:unbuffered", "AsyncFIFO(depth - 1) on the same domains",
              "the inner FIFO must be AsyncFIFO(depth=self.depth - 1) on the same read/write domains", f"{FIFO}:{fb.lineno}")
    s = subs.get("consume_buffered_cdc")
    ok = s is not None and unparse(s.call).startswith("FFSynchronizer(r_consume_buffered, w_consume_buffered, o_domain=self._w_domain")
    ctx.check(ok, R, "AsyncFIFOBuffered:consume_buffered_cdc", "read-side flag resynchronised into the write domain",
              "the buffered-entry flag must cross into the write domain through an FFSynchronizer", f"{FIFO}:{fb.lineno}")


# ---------------------------------------------------------------------------------------------- R-13c

class Interval:
    def __init__(self, lo, hi=None):
        self.lo, self.hi = lo, hi

    def __repr__(self):
        return f"[{self.lo}, {self.hi if self.hi is not None else 'inf'}]"


def lower_bound(e, env, facts):
    """least value the integer expression can take, given lower bounds of names (env) — None if unknown"""
    c = const_int(e)
    if c is not None:
        return c
    if isinstance(e, ast.Name) and e.id in env:
        return env[e.id]
    if isinstance(e, ast.Attribute) and unparse(e) in env:
        return env[unparse(e)]
    if isinstance(e, ast.BinOp):
        l, r = lower_bound(e.left, env, facts), lower_bound(e.right, env, facts)
        if isinstance(e.op, ast.Add) and l is not None and r is not None:
            return l + r
        if isinstance(e.op, ast.Sub) and l is not None and const_int(e.right) is not None:
            return l - const_int(e.right)
        if isinstance(e.op, ast.LShift) and const_int(e.left) is not None and r is not None and r >= 0:
            return const_int(e.left) << r
        if isinstance(e.op, ast.Mult) and l is not None and r is not None and l >= 0 and r >= 0:
            return l * r
    if isinstance(e, ast.Call) and dotted(e.func) == "ceil_log2" and len(e.args) == 1:
        a = lower_bound(e.args[0], env, facts)
        if a is None:
            return None
        # ceil_log2 is monotone: ceil_log2(x) for x >= a
        n = 0
        while (1 << n) < max(a, 0):
            n += 1
        return n
    if isinstance(e, ast.Call) and dotted(e.func) == "max" and e.args:
        bs = [lower_bound(a, env, facts) for a in e.args]
        known = [b for b in bs if b is not None]
        return max(known) if known else None
    if isinstance(e, ast.Call) and dotted(e.func) == "len" and len(e.args) == 1:
        k = unparse(e.args[0])
        return env.get(f"len({k})")
    return None


def _ctor_width_bounds(model, cls):
    """lower bounds of self.<attr> set in __init__ from constructor arithmetic, per Python path; returns
    {attr: min over paths} with the path condition `depth >= 1` when the elaborate() uses them only after the
    `self.depth == 0` early return."""
    f = model.func(f"{FIFO}::{cls}.__init__")
    from ..engine.symx import run_paths
    out = {}
    for p in run_paths(f.body):
        if p.how == "raise":
            continue
        env = {"depth": 0, "width": 0}
        # refine from path conditions: `depth != 0` taken -> depth >= 1
        for t, pol in p.conds:
            if unparse(t) == "depth != 0" and pol:
                env["depth"] = 1
            if unparse(t) == "depth != 0" and not pol:
                env["depth"] = 0
                env["_depth_is_zero"] = True
        # evaluate assigned attributes in order using the path's environment (names bound to ASTs over initial names)
        vals = {}
        for eff in p.effects:
            if isinstance(eff, ast.Assign) and isinstance(eff.targets[0], ast.Attribute) and unparse(eff.targets[0].value) == "self":
                lb = lower_bound(eff.value, env, None)
                vals[eff.targets[0].attr] = (lb, "_depth_is_zero" in env)
        for k, v in vals.items():
            out.setdefault(k, []).append(v)
    return out


def r13c(model, ctx):
    R = "R-13c"
    n = 0
    for cls in ("AsyncFIFO",):
        fn = model.func_expanded(f"{FIFO}::{cls}.elaborate", depth=3, exclude=("_gray_encode", "_gray_decode", "_incr"))
        em = ElabModel(fn)
        bounds = _ctor_width_bounds(model, cls)
        # attributes usable after the `self.depth == 0` early return: only constructor paths with depth != 0
        early0 = any(any(unparse(t) == "self.depth == 0" and p for t, p in conds) for conds, _l in em.returns)
        attr_lb = {}
        for attr, lst in bounds.items():
            cand = [lb for lb, zero in lst if not (early0 and zero)]
            if cand and all(c is not None for c in cand):
                attr_lb[f"self.{attr}"] = min(cand)
        # widths of local signals
        sig_lb = {}
        for name, call in em.signals.items():
            if call.args:
                lb = lower_bound(call.args[0], attr_lb, None)
                if lb is not None:
                    sig_lb[name] = lb
        from ..engine.astutil import parent_map
        _pm = parent_map(fn)

        class _P:
            @staticmethod
            def parent(x):
                return _pm.get(x)
        mod = _P
        for node in ast.walk(fn):
            if isinstance(node, ast.Subscript) and isinstance(node.value, ast.Name) and node.value.id in sig_lb:
                k = const_int(node.slice)
                if k is None:
                    continue
                # Python-level guards on the width attribute refine the bound on this path
                lb = sig_lb[node.value.id]
                p = mod.parent(node)
                child = node
                while p is not None and p is not fn:
                    if isinstance(p, ast.If):
                        in_body = any(child is s or any(child is x for x in ast.walk(s)) for s in p.body)
                        m = pmatch("_V_A == _V_C", p.test)
                        call = em.signals[node.value.id]
                        if m is not None and const_int(m["_V_C"]) is not None and call.args and unparse(m["_V_A"]) == unparse(call.args[0]):
                            c = const_int(m["_V_C"])
                            if not in_body and lb == c:
                                lb = c + 1           # on the else-path the width is not c, and it is >= c
                            if in_body:
                                lb = c
                    child = p
                    p = mod.parent(p)
                need_w = k + 1 if k >= 0 else -k
                n += 1
                ctx.check(lb >= need_w, R, f"{cls}.elaborate:{node.value.id}[{k}]",
                          f"width >= {lb} on this path, index needs {need_w}",
                          f"{cls}.elaborate indexes `{node.value.id}[{k}]`, which needs a signal of at least {need_w} bit(s), but "
                          f"its width `{unparse(em.signals[node.value.id].args[0])}` can be as small as {lb} on this path "
                          f"(e.g. depth=1 gives one-bit counters): elaborate() raises IndexError for a constructible depth",
                          f"{FIFO}:{node.lineno}")
    need(n >= 3, f"only {n} constant bit indices on constructor-sized signals found")
    # every constructible depth of the buffered variant maps to a constructible inner depth (>= 1 after the early return)
    fb = model.func(f"{FIFO}::AsyncFIFOBuffered.__init__")
    t = unparse(fb)
    ok = "depth_bits = ceil_log2(max(0, depth - 1))" in t and "depth = (1 << depth_bits) + 1" in t
    if not ok:
        # the same rounding through other locals: the depth passed on is (1 << ceil_log2(max(0, depth - 1))) + 1 on every
        # path where depth != 0
        from ..engine.bitalg import Canon
        cn = Canon()
        want = cn(ast.parse("(1 << ceil_log2(max(0, depth - 1))) + 1", mode="eval").body)
        ps = [p_ for p_ in run_paths([b for b in fb.body if not (isinstance(b, ast.Expr) and isinstance(b.value, ast.Constant))]) if p_.how != "raise"]
        vals = []
        for p_ in ps:
            for e in p_.effects:
                if isinstance(e, ast.Call) and unparse(e.func) == "super().__init__":
                    vals += [(k.value, p_) for k in e.keywords if k.arg == "depth"]
        need(vals, "AsyncFIFOBuffered.__init__: the depth handed to FIFOInterface was not found")
        ok = all(cn(v) == want or unparse(v) in ("depth", "0") and
                 any(unparse(t) in ("depth != 0",) and not pol or unparse(t) == "depth == 0" and pol for t, pol in p_.conds) for v, p_ in vals)
    ctx.check(ok, R, "AsyncFIFOBuffered.__init__:depth", "depth rounded to 2**n + 1 (inner depth 2**n >= 1)",
              "AsyncFIFOBuffered must round its depth to (1 << ceil_log2(max(0, depth - 1))) + 1", f"{FIFO}:{fb.lineno}")


def r13d(model, ctx):
    R = "R-13d"
    f = model.func_view(f"{FIFO}::AsyncFIFO.__init__")
    t = unparse(f)
    ok = "depth_bits = ceil_log2(depth)" in t and "depth = 1 << depth_bits" in t and "self._ctr_bits = depth_bits + 1" in t
    ctx.check(ok, R, "AsyncFIFO.__init__", "depth rounded up to 2**depth_bits; counters one bit wider than the address",
              "AsyncFIFO must round depth to 1 << ceil_log2(depth) and use depth_bits + 1 counter bits (the extra bit "
              "distinguishes full from empty)", f"{FIFO}:{f.lineno}")
    ok = "if exact_depth and depth != 1 << depth_bits" in t and "raise ValueError" in t
    ctx.check(ok, R, "AsyncFIFO.__init__:exact_depth", "non power-of-two exact depths are refused",
              "exact_depth must refuse depths that are not powers of two", f"{FIFO}:{f.lineno}")
    fn = model.func_expanded(f"{FIFO}::AsyncFIFO.elaborate", depth=3, exclude=("_gray_encode", "_gray_decode", "_incr"))
    em = ElabModel(fn)
    ctrs = ["produce_w_bin", "produce_w_nxt", "consume_r_bin", "consume_r_nxt", "produce_w_gry", "produce_r_gry",
            "consume_r_gry", "consume_w_gry", "consume_w_bin", "produce_r_bin"]
    bad = [c for c in ctrs if c not in em.signals or unparse(em.signals[c].args[0]) != "self._ctr_bits"]
    ctx.check(not bad, R, "AsyncFIFO:counter-widths", "all pointers are _ctr_bits wide",
              f"AsyncFIFO: pointers {bad} are not Signal(self._ctr_bits): comparing pointers of different widths breaks the "
              f"full/empty tests", f"{FIFO}:{fn.lineno}")
    st = [s for s in em.submodules if s.name == "storage"]
    ok = len(st) == 1 and "depth=self.depth" in unparse(st[0].call) and "shape=self.width" in unparse(st[0].call)
    ctx.check(ok, R, "AsyncFIFO:storage", "Memory(shape=width, depth=depth)", "storage must have the (rounded) depth", f"{FIFO}:{fn.lineno}")


GRAY_WIDTHS = range(1, 34)      # pointer widths decided (depths up to 2**32)


def r13e(model, ctx):
    """Gray helpers, decided in the GF(2)-affine bit domain (engine/gf2eval.py) for every pointer width 1..33:
    _gray_encode(v)[i] == v[i] ^ v[i+1] (the reflected binary Gray code) and _gray_decode(_gray_encode(v)) == v."""
    from ..engine.gf2eval import GF2Eval, Bits
    R = "R-13e"
    enc, dec = model.func(f"{FIFO}::_gray_encode"), model.func(f"{FIFO}::_gray_decode")
    bad_enc, bad_dec = [], []
    for n in GRAY_WIDTHS:
        v = Bits.inputs(n)
        e = GF2Eval().call(enc, [v])
        if not isinstance(e, Bits):
            raise AnalysisError("_gray_encode did not return a value")
        want = [(frozenset([i]) ^ (frozenset([i + 1]) if i + 1 < n else frozenset()), 0) for i in range(n)]
        got = list(e.bits[:n]) + [(frozenset(), 0)] * max(0, n - len(e))
        if got != want or any(b != (frozenset(), 0) for b in e.bits[n:]):
            bad_enc.append((n, e.text()))
            continue
        d = GF2Eval().call(dec, [Bits(want)])
        if not isinstance(d, Bits):
            raise AnalysisError("_gray_decode did not return a value")
        got = list(d.bits[:n]) + [(frozenset(), 0)] * max(0, n - len(d))
        if got != list(v.bits):
            bad_dec.append((n, d.text()))
    ctx.check(not bad_enc, R, "_gray_encode", f"bit i = v[i] ^ v[i+1] for widths {GRAY_WIDTHS.start}..{GRAY_WIDTHS.stop - 1}",
              f"_gray_encode is not the reflected binary Gray code: for width {bad_enc[0][0] if bad_enc else 0} it computes "
              f"{bad_enc[0][1] if bad_enc else ''} (successive pointer values would differ in more than one bit, which is what "
              f"makes sampling them from another clock domain safe)", f"{FIFO}:{enc.lineno}")
    ctx.check(not bad_dec, R, "_gray_decode", f"decode(encode(v)) == v for widths {GRAY_WIDTHS.start}..{GRAY_WIDTHS.stop - 1}",
              f"_gray_decode does not invert _gray_encode for pointer width(s) {[n for n, _ in bad_dec][:8]}: for width "
              f"{bad_dec[0][0] if bad_dec else 0} decode(encode(v)) = {bad_dec[0][1] if bad_dec else ''}; the level outputs and the "
              f"read pointer reloaded on reset would be wrong for FIFOs with that counter width", f"{FIFO}:{dec.lineno}")


def _ctor_default(model, cls, kw):
    f = model.func(f"{CDC}::{cls}.__init__")
    for a, d in zip(f.args.kwonlyargs, f.args.kw_defaults):
        if a.arg == kw and d is not None:
            return const_int(d)
    pos = f.args.args
    for a, d in zip(pos[len(pos) - len(f.args.defaults):], f.args.defaults):
        if a.arg == kw:
            return const_int(d)
    return None


def _stages(model, call):
    for k in call.keywords:
        if k.arg == "stages":
            return const_int(k.value)
    return _ctor_default(model, dotted(call.func), "stages")


def r13f(model, ctx):
    """start-up ordering: the read-side reset (AsyncFFSynchronizer flops power up asserted) must be released no later
    than the first write pointer can arrive through its synchroniser; while r_rst is high the read pointer is
    overwritten with the synchronised write pointer, which must then still be its initial value."""
    R = "R-13f"
    fn = model.func_expanded(f"{FIFO}::AsyncFIFO.elaborate", depth=3, exclude=("_gray_encode", "_gray_decode", "_incr"))
    em = _main_model(fn)
    subs = {s.name: s for s in em.submodules}
    need("rst_cdc" in subs and "produce_cdc" in subs and "consume_cdc" in subs, "AsyncFIFO: synchroniser submodules not found")
    k_rst, k_ptr, k_back = _stages(model, subs["rst_cdc"].call), _stages(model, subs["produce_cdc"].call), _stages(model, subs["consume_cdc"].call)
    need(None not in (k_rst, k_ptr, k_back), "AsyncFIFO: synchroniser stage counts are not integer literals")
    ctx.check(k_rst <= k_ptr, R, "AsyncFIFO:rst_cdc<=produce_cdc", f"reset release after {k_rst} read edges <= write pointer latency {k_ptr}",
              f"AsyncFIFO: the read-side reset synchroniser has {k_rst} stages but the write-pointer synchroniser only {k_ptr}: "
              f"r_rst is still high (the flops power up at 1) on a read edge where produce_r_gry already shows a written "
              f"pointer, so `consume_r_*.eq(produce_r_gry)` skips entries written before the first read-clock edges",
              f"{FIFO}:{subs['rst_cdc'].lineno}")
    ctx.check(k_ptr >= 2 and k_back >= 2 and k_rst >= 2, R, "AsyncFIFO:stages>=2", "every crossing has at least two flops",
              f"AsyncFIFO: a pointer/reset crossing with fewer than 2 synchroniser stages (rst {k_rst}, produce {k_ptr}, consume "
              f"{k_back}) exposes a metastable pointer to the full/empty comparison", f"{FIFO}:{fn.lineno}")
    # the flops of the reset synchroniser power up asserted; those of the pointer synchronisers at the pointer's init (0)
    from .c17 import find_chain
    fa = model.func_view(f"{CDC}::AsyncFFSynchronizer.elaborate", depth=3)
    ca = find_chain(fa)
    need(ca is not None, "AsyncFFSynchronizer.elaborate: register chain not recognised")
    kw = {k.arg: unparse(k.value) for k in ca.ctor.keywords}
    ok = kw.get("init") == "1" and ca.count == "range(self._stages)" and ca.link == "prev"
    ctx.check(ok, R, "AsyncFFSynchronizer:flops", "self._stages flops, all powering up asserted",
              "AsyncFFSynchronizer must build self._stages flops that power up at 1 (output asserted until released synchronously)",
              f"{CDC}:{fa.lineno}")
    ff = model.func_view(f"{CDC}::FFSynchronizer.elaborate", depth=3)
    cf = find_chain(ff)
    need(cf is not None, "FFSynchronizer.elaborate: register chain not recognised")
    ok = cf.count == "range(self._stages)" and cf.src == "self.i" and cf.link == "prev" and cf.domain == "self._o_domain" and cf.out == ("LAST", "'comb'")
    ctx.check(ok, R, "FFSynchronizer:chain", "self._stages flops chained i -> flops[0] -> .. -> flops[-1] -> o in o_domain",
              "FFSynchronizer must chain self._stages flops in the output domain and drive o from the last one", f"{CDC}:{ff.lineno}")


RULES = [("R-13e", r13e), ("R-13f", r13f), ("R-13a", r13a), ("R-13b", r13b), ("R-13c", r13c), ("R-13d", r13d)]
