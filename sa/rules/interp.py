"""Shared facts about the sibling interpreters of the value language (used by C01, C02, C04, C05)."""
import ast
from ..engine.core import AnalysisError, need
from ..engine.astutil import (dispatch_leaves, select_leaf, const_str, dotted, unparse, is_rejection, last_name)

AST_PY = "amaranth/hdl/_ast.py"
PYRTL = "amaranth/sim/_pyrtl.py"
PYEVAL = "amaranth/sim/_pyeval.py"
IR = "amaranth/hdl/_ir.py"
NIR = "amaranth/hdl/_nir.py"
RTLIL = "amaranth/back/rtlil.py"
XFRM = "amaranth/hdl/_xfrm.py"
DSL = "amaranth/hdl/_dsl.py"

# symbol -> Python operator class (the language guide: "identical to the Python operator")
BIN_PY = {"+": ast.Add, "-": ast.Sub, "*": ast.Mult, "//": ast.FloorDiv, "%": ast.Mod, "&": ast.BitAnd,
          "|": ast.BitOr, "^": ast.BitXor, "<<": ast.LShift, ">>": ast.RShift}
CMP_PY = {"==": ast.Eq, "!=": ast.NotEq, "<": ast.Lt, "<=": ast.LtE, ">": ast.Gt, ">=": ast.GtE}
UN_PY = {"-": ast.USub, "~": ast.Invert}

VALUE_KINDS = ["Const", "Signal", "Operator", "Slice", "Part", "Concat", "SwitchValue",
               "ClockSignal", "ResetSignal", "AnyValue", "Initial"]


def operator_universe(model):
    """All (symbol, arity) pairs constructed with a literal symbol anywhere in amaranth/ (Operator("x", [..]))."""
    uni = {}
    nonliteral = []
    for rel in model.all_files():
        if not rel.startswith("amaranth/") or rel.endswith("_nir.py"):
            continue
        m = model.mod(rel)
        for n in ast.walk(m.tree):
            if isinstance(n, ast.Call) and last_name(n.func) == "Operator" and dotted(n.func) in ("Operator", "_ast.Operator") \
                    and len(n.args) >= 2:
                sym = const_str(n.args[0])
                ops = n.args[1]
                if sym is not None and isinstance(ops, (ast.List, ast.Tuple)):
                    uni.setdefault((sym, len(ops.elts)), []).append(f"{rel}:{n.lineno}")
                else:
                    nonliteral.append(f"{rel}:{n.lineno}")
    return uni, nonliteral


def leaves(model, ref):
    fn = model.func(ref)
    return fn, dispatch_leaves(fn.body)


def env_for(sym, arity):
    return {"class": "Operator", "op": sym, "arity": arity}


def handled(leaf):
    """A leaf 'handles' a key when it is not the fall-through/rejection tail."""
    if leaf is None:
        return False
    if any(a[0] == "fallthrough" for a in leaf.conds) and is_rejection(leaf.body):
        return False
    if is_rejection(leaf.body) and len(leaf.body) == 1:
        return False
    return True
