"""Reference-summary rules: a function of /repo is compared, path by path, with a reference function written here after
reading the code and the documentation (engine/refsem.py: both are reduced to canonical path summaries — conditions,
stores and calls in order, result — so local names, guard-clause vs nested-if style, the spelling of masks and the
names of loop variables do not matter).  The reference is the rule; the current tree was confirmed against it by hand.
A difference inside the reference's vocabulary is a VIOLATION naming the function; a construct the reference does not
use ends the analysis with exit 2."""
import ast
from ..engine import refsem
from ..engine.core import need


def ref_rule(model, ctx, rule, ref, refs, fact, why, construct=None, inline=False, raises=True):
    rel, qual = ref.split("::")
    fn, paths = refsem.method_paths(model, ref, inline=inline)
    refs = [refs] if isinstance(refs, str) else list(refs)
    return refsem.compare(ctx, rule, construct or qual, f"{rel}:{fn.lineno}", qual, paths, refs, fact=fact, why=why, raises=raises)


# ------------------------------------------------------------------------------------------------ reference files
import os
import re

REFS_DIR = os.path.join(os.path.dirname(os.path.dirname(os.path.abspath(__file__))), "refs")


def load_refs(name):
    """/verif/sa/refs/<name>.py: blocks `#: <file>::<qualname>` / `#: fact: ..` / `#: why: ..` / `def _(...): <reference body>`.
    Returns [(ref, body source, fact, why)] in file order."""
    text = open(os.path.join(REFS_DIR, name + ".py"), encoding="utf-8").read()
    out = []
    blocks = re.split(r"(?m)^#: (?=amaranth/)", text)[1:]
    for b in blocks:
        lines = b.splitlines()
        ref = lines[0].strip()
        meta = {"fact": "", "why": ""}
        i = 1
        key = None
        while i < len(lines) and lines[i].startswith("#:"):
            m = re.match(r"#: (fact|why): ?(.*)", lines[i])
            if m:
                key = m.group(1)
                meta[key] = m.group(2).strip()
            elif key:
                meta[key] += " " + lines[i][2:].strip()
            i += 1
        src = "\n".join(lines[i:])
        tree = ast.parse(src)
        fns = [n for n in tree.body if isinstance(n, (ast.FunctionDef, ast.AsyncFunctionDef))]
        need(len(fns) == 1, f"reference file {name}: block {ref} must hold exactly one function")
        body = "\n".join(ast.unparse(st) for st in fns[0].body)
        out.append((ref, body, meta["fact"], meta["why"]))
    return out


def run_ref_file(model, ctx, rule, name, only=None):
    n = 0
    for ref, body, fact, why in load_refs(name):
        if only is not None and not only(ref):
            continue
        ref_rule(model, ctx, rule, ref, body, fact or "matches its reference semantics", why)
        n += 1
    return n
