"""Reference-summary rules: a function of /repo is compared, path by path, with a reference function written here after
reading the code and the documentation (engine/refsem.py: both are reduced to canonical path summaries — conditions,
stores and calls in order, result — so local names, guard-clause vs nested-if style, the spelling of masks and the
names of loop variables do not matter).  The reference is the rule; the current tree was confirmed against it by hand.
A difference inside the reference's vocabulary is a VIOLATION naming the function; a construct the reference does not
use ends the analysis with exit 2."""
import ast
from ..engine import refsem
from ..engine.core import need


def chained_varargs(*methods):
    """rewrite for builder APIs documented as `x.m(a).m(b)` == `x.m(a, b)` (e.g. TickTrigger / TriggerCombination .sample)"""
    def rewrite(e):
        if isinstance(e, ast.Call) and isinstance(e.func, ast.Attribute) and e.func.attr in methods and not e.keywords:
            inner = e.func.value
            if isinstance(inner, ast.Call) and isinstance(inner.func, ast.Attribute) and inner.func.attr == e.func.attr and \
                    not inner.keywords:
                return ast.Call(func=inner.func, args=list(inner.args) + list(e.args), keywords=[])
        return None
    return rewrite


def trigger_api(e):
    """documented identities of the trigger builders (sim/_async.py): chained .sample() calls equal one call with the combined
    arguments; .posedge(s) is .edge(s, 1) and .negedge(s) is .edge(s, 0)"""
    r = chained_varargs("sample")(e)
    if r is not None:
        return r
    if isinstance(e, ast.Call) and isinstance(e.func, ast.Attribute) and e.func.attr in ("posedge", "negedge") and \
            len(e.args) == 1 and not e.keywords:
        return ast.Call(func=ast.Attribute(value=e.func.value, attr="edge", ctx=ast.Load()),
                        args=[e.args[0], ast.Constant(1 if e.func.attr == "posedge" else 0)], keywords=[])
    return None


def ref_rule(model, ctx, rule, ref, refs, fact, why, construct=None, inline=False, raises=True, rewrite=None):
    rel, qual = ref.split("::")
    fn, paths = refsem.method_paths(model, ref, inline=inline)
    refs = [refs] if isinstance(refs, str) else list(refs)
    # closures defined inside the function are outside its path summary: a difference of summaries may then be a mere
    # restructuring of the closures
    nested = any(isinstance(n, (ast.FunctionDef, ast.AsyncFunctionDef, ast.Lambda)) and n is not fn for n in ast.walk(fn)) or \
        any(isinstance(n, (ast.FunctionDef, ast.AsyncFunctionDef, ast.Lambda)) for r in refs if isinstance(r, str) for n in ast.walk(ast.parse(r)))
    return refsem.compare(ctx, rule, construct or qual, f"{rel}:{fn.lineno}", qual, paths, refs, fact=fact, why=why, raises=raises,
                          rewrite=rewrite, undecided="nested function definitions" if nested else None, strict_expr=True)


# ------------------------------------------------------------------------------------------------ reference files
import os
import re

REFS_DIR = os.path.join(os.path.dirname(os.path.dirname(os.path.abspath(__file__))), "refs")


def load_refs(name):
    """/verif/sa/refs/<name>.py: blocks `#: <file>::<qualname>` / `#: fact: ..` / `#: why: ..` / `def _(...): <reference body>`.
    Returns [(ref, body source, fact, why)] in file order."""
    text = open(os.path.join(REFS_DIR, name + ".py"), encoding="utf-8").read()
    out = []
    blocks = re.split(r"(?m)^#: (?=amaranth/)", text)[1:]
    for b in blocks:
        lines = b.splitlines()
        ref = lines[0].strip()
        meta = {"fact": "", "why": ""}
        i = 1
        key = None
        while i < len(lines) and lines[i].startswith("#:"):
            m = re.match(r"#: (fact|why): ?(.*)", lines[i])
            if m:
                key = m.group(1)
                meta[key] = m.group(2).strip()
            elif key:
                meta[key] += " " + lines[i][2:].strip()
            i += 1
        src = "\n".join(lines[i:])
        tree = ast.parse(src)
        fns = [n for n in tree.body if isinstance(n, (ast.FunctionDef, ast.AsyncFunctionDef))]
        need(len(fns) == 1, f"reference file {name}: block {ref} must hold exactly one function")
        body = "\n".join(ast.unparse(st) for st in fns[0].body)
        out.append((ref, body, meta["fact"], meta["why"]))
    return out


def run_ref_file(model, ctx, rule, name, only=None, isolate=False):
    """isolate: an unrecognised shape in one function does not stop the comparison of the others; the unrecognised ones are
    reported together (exit 2) after every function was compared"""
    from ..engine.core import AnalysisError
    n, errs = 0, []
    for ref, body, fact, why in load_refs(name):
        if only is not None and not only(ref):
            continue
        try:
            ref_rule(model, ctx, rule, ref, body, fact or "matches its reference semantics",
                     why or "the function's behaviour differs from the reference semantics recorded for the pinned tree")
        except AnalysisError as e:
            if not isolate:
                raise
            errs.append(str(e))
            ctx.ok(rule, ref.split("::")[1] + ":unrecognised", "not comparable (reported as analysis error)", ref)
        except RecursionError:
            if not isolate:
                raise
            errs.append(f"{ref}: recursion limit in the summariser")
            ctx.ok(rule, ref.split("::")[1] + ":unrecognised", "not comparable (reported as analysis error)", ref)
        n += 1
    if errs:
        raise AnalysisError(f"{len(errs)} function(s) not comparable: " + " || ".join(e[:300] for e in errs[:6]))
    return n
