"""C19 — resource requests map pins one-to-one and constraints name the right pin (structural necessary conditions)."""
import ast
import re
from ..engine.core import AnalysisError, need
from ..engine.astutil import (const_str, const_int, dotted, unparse, pmatch, walk_no_nested, dump, names_in, last_name)
from ..engine.cfg import CFG, ENTRY, EXIT, RAISE

RES = "amaranth/build/res.py"
DSLB = "amaranth/build/dsl.py"
PLAT = "amaranth/build/plat.py"
VENDORS = ["amaranth/vendor/_siliconblue.py", "amaranth/vendor/_lattice.py", "amaranth/vendor/_gowin.py"]

EXPLANATION = (
    "Static (ast-only) decision of structural necessary conditions of C19: (a) check-then-commit: in "
    "ResourceManager.request (closures resolve/merge_options and add_clock_constraint linked into one supergraph) "
    "either no `raise` is reachable after a mutation of the allocation state (_phys_reqd, _pins, _io_clocks, "
    "_requested), or the mutating call is wrapped in a try whose handler restores every mutated attribute from a "
    "snapshot taken before and re-raises; (b) request-once: the _requested membership test dominates the resolution and "
    "the insertion follows it; the physical-pin clash test precedes the allocation of that pin; (c) order preservation "
    "from Pins.names through map_names (chained connectors: `while ':' in name`) to the IOPort metadata list, and "
    "inversion/direction taken from the declaration; (d) constraint templates of the SiliconBlue, Lattice and Gowin "
    "platforms: every location line inside a loop over iter_port_constraints_bits() has the port variable in the net "
    "slot and the pin variable in the site slot of its format, and clock lines use the loop's frequency in the unit "
    "of their format; (e) net naming: the back end records (*module path, leaf) for every signal, the "
    "`hierarchy` template filter joins every component after the design name, and every signal-clock template line "
    "names its net through that filter. NOT decided: end-to-end content of rendered plans."
)
ASSUMPTIONS = ["CPython ast parses /repo's source as the interpreter would",
               "constraint file formats (set_io / LOCATE COMP / ldc_set_location / IO_LOC; set_frequency MHz, FREQUENCY Hz, "
               "create_clock -period ns) frozen in sa/rules/c19.py"]
MIN_INSTANCES = {"R-19h": 4, "R-19g": 1, "R-19f": 1, "R-19e": 11, "R-19a": 1, "R-19b": 3, "R-19c": 5, "R-19d": 10}

STATE_ATTRS = {"_phys_reqd", "_pins", "_io_clocks", "_clocks", "_requested"}
MUT_CALLS = {"append", "add", "update", "pop", "clear", "setdefault", "extend", "insert", "remove", "popitem"}


def _mutations(fn, aliases=None):
    """[(node, attr)] direct mutations of self.<STATE_ATTRS> in a function (aliases: local name -> attr)"""
    aliases = dict(aliases or {})
    out = []
    for n in ast.walk(fn):
        if isinstance(n, ast.Assign) and len(n.targets) == 1 and isinstance(n.targets[0], ast.Name):
            if isinstance(n.value, ast.Attribute) and unparse(n.value.value) == "self" and n.value.attr in STATE_ATTRS:
                aliases[n.targets[0].id] = n.value.attr
    for n in ast.walk(fn):
        tg = []
        if isinstance(n, ast.Assign):
            tg = n.targets
        elif isinstance(n, ast.AugAssign):
            tg = [n.target]
        elif isinstance(n, ast.Delete):
            tg = n.targets
        for t in tg:
            for x in (t.elts if isinstance(t, ast.Tuple) else [t]):
                base = x
                sub = False
                while isinstance(base, ast.Subscript):
                    base = base.value
                    sub = True
                if isinstance(base, ast.Attribute) and unparse(base.value) == "self" and base.attr in STATE_ATTRS:
                    out.append((n, base.attr, "rebind" if not sub else "store"))
                if sub and isinstance(base, ast.Name) and base.id in aliases:
                    out.append((n, aliases[base.id], "store"))
        if isinstance(n, ast.Call) and isinstance(n.func, ast.Attribute) and n.func.attr in MUT_CALLS:
            b = n.func.value
            if isinstance(b, ast.Attribute) and unparse(b.value) == "self" and b.attr in STATE_ATTRS:
                out.append((n, b.attr, "call"))
    return out


def r19a(model, ctx):
    R = "R-19a"
    fn = model.func(f"{RES}::ResourceManager.request")
    mod = model.mod(RES)
    acc = model.func(f"{RES}::ResourceManager.add_clock_constraint")
    # add_clock_constraint: which attribute does it mutate for which argument type
    acc_muts = sorted({a for _, a, _ in _mutations(acc)})
    need(acc_muts, "add_clock_constraint: no state mutation found")
    # in request(), the clock argument is always an IOPort built in the same closure
    acc_calls = [n for n in ast.walk(fn) if isinstance(n, ast.Call) and unparse(n.func) == "self.add_clock_constraint"]
    arg_is_ioport = True
    for c in acc_calls:
        a = c.args[0]
        binds = [s for s in ast.walk(fn) if isinstance(s, ast.Assign) and unparse(s.targets[0]) == unparse(a)]
        arg_is_ioport = arg_is_ioport and bool(binds) and all(isinstance(b.value, ast.Call) and dotted(b.value.func) == "IOPort" for b in binds)
    sel = [s for s in ast.walk(acc) if isinstance(s, ast.If) and pmatch("isinstance(clock, IOPort)", s.test) is not None]
    via_acc = set(acc_muts)
    if arg_is_ioport and len(sel) == 1 and unparse(sel[0].body[0]) == "clocks = self._io_clocks":
        via_acc = {"_io_clocks"}
    g = CFG(fn, inline_closures=True)
    # mutation nodes: direct, plus calls of add_clock_constraint (which can also raise)
    direct = _mutations(fn)
    mut_nodes = {}
    for nid, s in g.stmt.items():
        for n, attr, how in direct:
            if any(n is x for x in ast.walk(s) if isinstance(s, ast.stmt)) and not isinstance(s, (ast.If, ast.For, ast.While, ast.With, ast.Try)):
                mut_nodes.setdefault(nid, set()).add(attr)
        for c in acc_calls:
            if not isinstance(s, (ast.If, ast.For, ast.While, ast.With, ast.Try)) and any(c is x for x in ast.walk(s)):
                mut_nodes.setdefault(nid, set()).update(via_acc)
    need(mut_nodes, "request(): no allocation-state mutation found")
    mutated = set().union(*mut_nodes.values())
    raise_nodes = [nid for nid, s in g.stmt.items() if isinstance(s, ast.Raise) or
                   (isinstance(s, ast.Assert) and not (isinstance(s.test, ast.Constant)))]
    # calls that may raise: add_clock_constraint (ValueError/TypeError), map_names (NameError)
    may_raise_calls = [nid for nid, s in g.stmt.items() if not isinstance(s, (ast.If, ast.For, ast.While, ast.With, ast.Try)) and any(
        isinstance(x, ast.Call) and last_name(x.func) in ("add_clock_constraint", "map_names") for x in ast.walk(s))]
    late = {}
    for m_, attrs in mut_nodes.items():
        after = g.after(m_)
        hits = [r for r in raise_nodes + may_raise_calls if r in after and g.owner.get(r) != "merge_options"]
        hits = [r for r in hits if not (isinstance(g.stmt[r], ast.Raise) and g.stmt[r].exc is None)]   # bare re-raise in a handler
        if hits:
            late[m_] = (attrs, hits)
    if not late:
        ctx.ok(R, "ResourceManager.request:check-then-commit", f"no raise is reachable after a mutation of {sorted(mutated)}",
               f"{RES}:{fn.lineno}")
        return
    # mutations followed by possible failure: require rollback around the resolving call
    need_restore = set()
    for attrs, hits in late.values():
        need_restore |= attrs
    need_restore -= {"_requested"}
    trys = [s for s in ast.walk(fn) if isinstance(s, ast.Try) and mod.enclosing_def(s) is fn]
    restored = set()
    reraises = False
    snap_ok = False
    covered = False
    for t in trys:
        calls_resolve = any(isinstance(x, ast.Call) and dotted(x.func) == "resolve" for s in t.body for x in ast.walk(s))
        if not calls_resolve:
            continue
        covered = True
        for h in t.handlers:
            broad = h.type is None or unparse(h.type) in ("BaseException", "Exception")
            if not broad:
                continue
            for s in h.body:
                if isinstance(s, ast.Assign):
                    tg = s.targets[0]
                    elts = tg.elts if isinstance(tg, ast.Tuple) else [tg]
                    vals = s.value.elts if isinstance(s.value, ast.Tuple) else [s.value]
                    for e, v in zip(elts, vals):
                        if isinstance(e, ast.Attribute) and unparse(e.value) == "self" and isinstance(v, ast.Name):
                            # the snapshot variable must be assigned a copy of the same attribute before the try
                            snaps = [a for a in ast.walk(fn) if isinstance(a, ast.Assign) and a.lineno < t.lineno]
                            for a in snaps:
                                at = a.targets[0]
                                aelts = at.elts if isinstance(at, ast.Tuple) else [at]
                                avals = a.value.elts if isinstance(a.value, ast.Tuple) else [a.value]
                                for ae, av in zip(aelts, avals):
                                    if isinstance(ae, ast.Name) and ae.id == v.id and f"self.{e.attr}" in unparse(av) and \
                                            isinstance(av, ast.Call) and (unparse(av.func) in ("list", "dict", "OrderedDict", "SignalDict")
                                                                         or unparse(av.func).endswith(".copy")):
                                        restored.add(e.attr)
                if isinstance(s, ast.Raise) and s.exc is None:
                    reraises = True
    ok = covered and reraises and need_restore <= restored
    example = next(iter(late.items()))
    ctx.check(ok, R, "ResourceManager.request:check-then-commit",
              f"mutations of {sorted(need_restore)} can be followed by a failure, and the handler restores {sorted(restored)} "
              f"from copies taken before and re-raises",
              f"in request() a `raise` (or a call that can raise) is reachable after the allocation state "
              f"{sorted(need_restore)} was already mutated (e.g. line {g.lineno(example[0])} -> line "
              f"{g.lineno(example[1][1][0])}: a later pin or subsignal of the same resource is refused), and no handler "
              f"restores it (restored: {sorted(restored)}, re-raises: {reraises}): a refused request leaves pins allocated",
              f"{RES}:{g.lineno(example[0])}")


def _mutated_while_iterated(fn):
    """loops of `fn` that iterate a dictionary view directly (D, D.items(), D.keys(), D.values()) and whose body deletes a key
    of D: CPython raises RuntimeError('... mutated during iteration') at the next step. Returns [(loop, D)] for the offenders,
    and the number of loops inspected."""
    bad, n = [], 0
    for lp in ast.walk(fn):
        if not isinstance(lp, ast.For):
            continue
        it = lp.iter
        if isinstance(it, ast.Call) and isinstance(it.func, ast.Attribute) and it.func.attr in ("items", "keys", "values") and not it.args:
            d = unparse(it.func.value)
        elif isinstance(it, (ast.Name, ast.Attribute)):
            d = unparse(it)
        else:
            continue        # list(D.items()), sorted(D), tuple(D) ...: a copy is iterated
        n += 1
        for x in ast.walk(lp):
            if isinstance(x, ast.Delete) and any(isinstance(t, ast.Subscript) and unparse(t.value) == d for t in x.targets):
                bad.append((lp, d))
            if isinstance(x, ast.Call) and isinstance(x.func, ast.Attribute) and unparse(x.func.value) == d and \
                    x.func.attr in ("pop", "popitem", "clear"):
                bad.append((lp, d))
    return bad, n


def r19b(model, ctx):
    R = "R-19b"
    # attributes that resolve to None are removed from the request's attribute dictionary: over a copy of its items
    fres = model.func(f"{RES}::ResourceManager.request.resolve")
    bad, n_lp = _mutated_while_iterated(fres)
    need(n_lp + len([x for x in ast.walk(fres) if isinstance(x, ast.For)]) >= 1, "resolve: no loop found")
    ctx.check(not bad, R, "resolve:attrs-removed-over-a-copy", "no dictionary is shrunk while its own view is being iterated",
              "resolve() deletes entries of `" + (bad[0][1] if bad else "-") + "` inside a loop over that dictionary's own view: a "
              "resource with an attribute that is None (or a callable returning None) followed by another attribute makes "
              "request() die with RuntimeError('OrderedDict mutated during iteration')", f"{RES}:{bad[0][0].lineno if bad else fres.lineno}")
    fn = model.func(f"{RES}::ResourceManager.request")
    g = CFG(fn, inline_closures=False)
    tests = [nid for nid, s in g.stmt.items() if isinstance(s, ast.If) and "in self._requested" in unparse(s.test)]
    res_calls = g.nodes_with(lambda n: isinstance(n, ast.Call) and dotted(n.func) == "resolve")
    ins = g.nodes(lambda s: isinstance(s, ast.Assign) and unparse(s.targets[0]).startswith("self._requested["))
    ok = len(tests) == 1 and len(res_calls) == 1 and len(ins) == 1
    if ok:
        t = g.stmt[tests[0]]
        ok = unparse(t.test) == "(resource.name, resource.number) in self._requested" and isinstance(t.body[-1], ast.Raise) and \
            "ResourceError" in unparse(t.body[-1]) and g.dominates({tests[0]}, res_calls[0]) and ins[0] in g.after(res_calls[0]) \
            and res_calls[0] not in g.after(ins[0]) and unparse(g.stmt[ins[0]].targets[0]) == "self._requested[resource.name, resource.number]"
    ctx.check(ok, R, "request:once", "already-requested test dominates resolution; recorded after it succeeds",
              "request() must refuse a resource that is already in _requested before resolving it, and record it (under the "
              "same key) only after resolution succeeded", f"{RES}:{fn.lineno}")
    fl = model.func(f"{RES}::ResourceManager.lookup")
    ok = "if (name, number) not in self.resources" in unparse(fl) and "raise ResourceError" in unparse(fl)
    ctx.check(ok, R, "lookup", "unknown resources raise ResourceError", "lookup() must raise ResourceError for unknown resources",
              f"{RES}:{fl.lineno}")
    fr = model.func_expanded(f"{RES}::ResourceManager.request.resolve", depth=3, exclude=("add_clock_constraint", "merge_options", "resolve"))
    loops = [s for s in ast.walk(fr) if isinstance(s, ast.For) and unparse(s.iter) == "phys_names"]
    ok = len(loops) == 1
    if ok:
        b = loops[0].body
        # locals read from the table before the test (prev = self._phys_reqd.get(phys_name)); owners are path tuples, never None
        pre = {x.targets[0].id: unparse(x.value) for x in b[:-2] if isinstance(x, ast.Assign) and len(x.targets) == 1 and
               isinstance(x.targets[0], ast.Name)}
        tst = b[-2] if len(b) >= 2 else None
        clash = isinstance(tst, ast.If) and (unparse(tst.test) == "phys_name in self._phys_reqd" or any(
            unparse(tst.test) == f"{k} is not None" and v in ("self._phys_reqd.get(phys_name)", "self._phys_reqd.get(phys_name, None)")
            for k, v in pre.items()))
        ok = len(b) == 2 + len(pre) and clash and not tst.orelse and \
            isinstance(tst.body[-1], ast.Raise) and "ResourceError" in unparse(tst.body[-1]) and \
            unparse(b[-1]) == "self._phys_reqd[phys_name] = path"
    ctx.check(ok, R, "resolve:pin-clash", "every physical pin is tested against _phys_reqd before it is allocated",
              "for every physical pin name the clash test (raise ResourceError) must precede its allocation in _phys_reqd",
              f"{RES}:{fr.lineno}")
    t = unparse(fr)
    ok = "phys_names = phys_names_p + phys_names_n" in t
    ctx.check(ok, R, "resolve:diffpair-pins", "both legs of a differential pair are allocated",
              "for DiffPairs both the p and n pin names must be allocated", f"{RES}:{fr.lineno}")


def r19c(model, ctx):
    R = "R-19c"
    fm = model.func(f"{DSLB}::Pins.map_names")
    # (1) a name is resolved by following connector references while it still contains ':' (chained connectors), raising for
    #     unknown connector pins — in the body or in a local helper
    whiles = [w for w in ast.walk(fm) if isinstance(w, (ast.While, ast.If)) and pmatch('":" in name', w.test) is not None]
    okw = len(whiles) == 1 and isinstance(whiles[0], ast.While) and unparse(whiles[0].body[-1]) == "name = mapping[name]" and \
        any(isinstance(x, ast.If) and unparse(x.test) == "name not in mapping" and isinstance(x.body[0], ast.Raise) for x in whiles[0].body)
    # (2) every declared name, in declared order: an appending loop over self.names, or a comprehension over self.names
    order = None
    for lp in fm.body:
        if isinstance(lp, ast.For) and unparse(lp.iter) == "self.names" and unparse(lp.target) == "name" and \
                any(w is x for w in whiles for x in ast.walk(lp)):
            app = [x for x in lp.body if isinstance(x, ast.Expr) and pmatch("_V_L.append(name)", x.value) is not None]
            if len(app) == 1 and lp.body[-1] is app[0]:
                lst = unparse(pmatch("_V_L.append(name)", app[0].value)["_V_L"])
                order = isinstance(fm.body[-1], ast.Return) and unparse(fm.body[-1].value) == lst
    if order is None:
        helpers = {h.name: h for h in fm.body if isinstance(h, ast.FunctionDef) and any(w is x for w in whiles for x in ast.walk(h))}
        ret = fm.body[-1]
        if isinstance(ret, ast.Return) and isinstance(ret.value, ast.ListComp) and len(ret.value.generators) == 1 and \
                not ret.value.generators[0].ifs and unparse(ret.value.generators[0].iter) == "self.names" and \
                isinstance(ret.value.elt, ast.Call) and dotted(ret.value.elt.func) in helpers and \
                [unparse(a_) for a_ in ret.value.elt.args] == [unparse(ret.value.generators[0].target)]:
            h = helpers[dotted(ret.value.elt.func)]
            order = isinstance(h.body[-1], ast.Return) and unparse(h.body[-1].value) == h.args.args[0].arg == "name"
    need(order is not None, "Pins.map_names: neither the appending loop nor the comprehension over self.names was recognised")
    ctx.check(okw and order, R, "Pins.map_names", "names in declared order; connector references followed until a platform pin (chained)",
              "map_names must keep the declared order and resolve connector-relative names with `while ':' in name` (chained "
              "connectors), raising for unknown connector pins", f"{DSLB}:{fm.lineno}")
    ok = not any(isinstance(n, ast.Call) and dotted(n.func) in ("sorted", "set", "reversed", "frozenset") for n in ast.walk(fm))
    ctx.check(ok, R, "Pins.map_names:order", "no sort/set/reverse", "map_names must not reorder the pins", f"{DSLB}:{fm.lineno}")
    fr = model.func_expanded(f"{RES}::ResourceManager.request.resolve", depth=3, exclude=("add_clock_constraint", "merge_options", "resolve"))
    t = unparse(fr)
    # IOPort width and metadata order
    checks = [
        ("single-ended", "iop = IOPort(len(phys), name='__'.join(path) + '__io', metadata=[PortMetadata(name, attrs) for name in phys_names])"),
        ("diff p", "p = IOPort(len(phys), name='__'.join(path) + '__p', metadata=[PortMetadata(name, attrs) for name in phys_names_p])"),
        ("diff n", "n = IOPort(len(phys), name='__'.join(path) + '__n', metadata=[PortMetadata(name, attrs) for name in phys_names_n])"),
    ]
    for what, frag in checks:
        ctx.check(frag in t, R, f"resolve:IOPort:{what}", "one metadata entry per pin name, in map_names order",
                  f"the {what} IOPort must have len(phys) bits and one PortMetadata per mapped pin name in order", f"{RES}:{fr.lineno}")
    ok = "phys_names = phys.map_names(self._conn_pins, resource)" in t and \
        "phys_names_p = phys.p.map_names(self._conn_pins, resource)" in t and "phys_names_n = phys.n.map_names(self._conn_pins, resource)" in t
    ctx.check(ok, R, "resolve:map_names-args", "pin names resolved through the connector pin table",
              "pin names must be resolved with map_names(self._conn_pins, resource)", f"{RES}:{fr.lineno}")
    ok = "io.SingleEndedPort(iop, invert=phys.invert, direction=direction)" in t and \
        "io.DifferentialPort(p, n, invert=phys.invert, direction=direction)" in t
    ctx.check(ok, R, "resolve:invert/direction", "ports carry the declared inversion and direction",
              "the returned port must carry invert=phys.invert and the declared direction", f"{RES}:{fr.lineno}")
    ifs = [s for s in ast.walk(fr) if isinstance(s, ast.If) and pmatch('phys.dir == "oe"', s.test) is not None]
    exps = [s for s in ast.walk(fr) if isinstance(s, ast.Assign) and unparse(s.targets[0]) == "direction" and isinstance(s.value, ast.IfExp)]
    if ifs:
        ok = len(ifs) == 1 and unparse(ifs[0].body[0]) == "direction = 'o'" and unparse(ifs[0].orelse[0]) == "direction = phys.dir"
    elif exps:
        e = exps[0].value
        ok = len(exps) == 1 and ((unparse(e.test) == "phys.dir == 'oe'" and unparse(e.body) == "'o'" and unparse(e.orelse) == "phys.dir") or
                                 (unparse(e.test) == "phys.dir != 'oe'" and unparse(e.orelse) == "'o'" and unparse(e.body) == "phys.dir"))
    else:
        raise AnalysisError("resolve: the mapping of the declared direction ('oe' -> 'o') was not found")
    ctx.check(ok, R, "resolve:direction-map", "'oe' -> 'o', others unchanged", "direction must be phys.dir with 'oe' mapped to 'o'",
              f"{RES}:{fr.lineno}")
    fc = model.func(f"{RES}::ResourceManager.add_connectors")
    ok = "for (conn_pin, plat_pin) in conn:" in unparse(fc).replace("for conn_pin, plat_pin in conn:", "for (conn_pin, plat_pin) in conn:") and \
        "self._conn_pins[conn_pin] = plat_pin" in unparse(fc)
    ctx.check(ok, R, "add_connectors", "connector pins recorded as conn_pin -> plat_pin", "connector pins must be recorded "
              "conn_pin -> plat_pin", f"{RES}:{fc.lineno}")
    # every yielded constraint pairs a port bit with the metadata entry of the same index: (name | name[bit], M.name, M.attrs)
    # with M = port.metadata[0] for one-bit ports or the element enumerate(port.metadata) gives for `bit`
    from ..engine.astutil import parent_map, dominating_conditions
    fp = model.func_view(f"{PLAT}::Platform.iter_port_constraints_bits")
    # block-scoped copy propagation of `x = port.metadata[0]` (the name may be re-used as a loop variable in another branch)
    import copy as _copy
    from ..engine.symx import subst as _subst
    fp = _copy.deepcopy(fp)
    for blk in [n for n in ast.walk(fp) if isinstance(n, ast.If)]:
        for body in (blk.body, blk.orelse):
            for k, st_ in enumerate(body):
                if isinstance(st_, ast.Assign) and len(st_.targets) == 1 and isinstance(st_.targets[0], ast.Name) and \
                        unparse(st_.value) == "port.metadata[0]":
                    env_ = {st_.targets[0].id: st_.value}
                    body[k + 1:] = [_subst(x, env_) for x in body[k + 1:]]
    pmx = parent_map(fp)
    ys = [y for y in ast.walk(fp) if isinstance(y, ast.Yield)]
    need(ys, "iter_port_constraints_bits: no yield found")
    ok = any(isinstance(lp, ast.For) and unparse(lp.iter) == "self._design.ports" for lp in ast.walk(fp))
    for y in ys:
        v = y.value
        if not (isinstance(v, ast.Tuple) and len(v.elts) == 3):
            ok = False
            continue
        N, P, A = v.elts
        M = unparse(P)[:-len(".name")] if unparse(P).endswith(".name") else None
        good = M is not None and unparse(A) == f"{M}.attrs"
        conds = dominating_conditions(pmx, pmx.get(y), fp) if good else []
        ctext = {(unparse(t), pol) for t, pol in conds}
        if good and M == "port.metadata[0]":
            good = unparse(N) == "name" and ("len(port) == 1", True) in ctext and \
                (("port.metadata[0] is None", False) in ctext or ("port.metadata[0] is not None", True) in ctext)
        elif good:
            loop = pmx.get(y)
            while loop is not None and not (isinstance(loop, ast.For) and unparse(loop.iter) == "enumerate(port.metadata)"):
                loop = pmx.get(loop)
            good = loop is not None and isinstance(loop.target, ast.Tuple) and len(loop.target.elts) == 2 and unparse(loop.target.elts[1]) == M
            if good:
                bit = unparse(loop.target.elts[0])
                idx = "f'{name}[{" + bit + "}]'"
                nt = unparse(N)
                multi = nt == idx and (("len(port) == 1", False) in ctext)
                both = isinstance(N, ast.IfExp) and unparse(N.test) == "len(port) == 1" and unparse(N.body) == "name" and unparse(N.orelse) == idx
                both = both or (isinstance(N, ast.IfExp) and unparse(N.test) in ("len(port) != 1", "len(port) > 1") and
                                unparse(N.orelse) == "name" and unparse(N.body) == idx)
                good = (multi or both) and ((f"{M} is None", False) in ctext or (f"{M} is not None", True) in ctext)
        ok = ok and good
    ctx.check(ok, R, "iter_port_constraints_bits", "bit i of a port is paired with metadata[i] (its own pin)",
              "iter_port_constraints_bits must pair bit i of every design port with metadata[i].name (and the 1-bit port with "
              "metadata[0])", f"{PLAT}:{fp.lineno}")


# ---------------------------------------------------------------------------------------------- R-19d

LOC_FORMATS = [
    ("set_io", re.compile(r"^set_io (?P<port>\S+) (?P<site>\S+)$")),
    ("LOCATE", re.compile(r'^LOCATE COMP "(?P<port>[^"]+)" SITE "(?P<site>[^"]+)";$')),
    ("ldc_set_location", re.compile(r'^ldc_set_location -site [{"]?(?P<site>[^}" ]+)[}"]? \[get_ports (?P<port>[^\]]+)\]$')),
    ("IO_LOC", re.compile(r'^IO_LOC "(?P<port>[^"]+)" (?P<site>\S+);$')),
]
CLOCK_FORMATS = [
    ("set_frequency", re.compile(r"^set_frequency (?P<net>\S+) (?P<val>\S+)$"), "frequency/1000000"),
    ("FREQUENCY", re.compile(r'^FREQUENCY (NET|PORT) "(?P<net>.+?)" (?P<val>\S+) HZ;$'), "frequency"),
    ("create_clock", re.compile(r"^create_clock -name (?P<name>.+?) -period (?P<val>\S+) \[get_(nets|ports)\s*(?P<net>.*?)\]?$"), "1000000000/frequency"),
]


def _norm_jinja(line):
    line = line.strip()
    line = re.sub(r"\{\{\s*(.*?)\s*\}\}", lambda m: "«" + m.group(1).replace(" ", "") + "»", line)
    for a, b in [("«'{'»", "{"), ("«'}'»", "}"), ('«"{"»', "{"), ('«"}"»', "}"), ("«'['»", "["), ("«']'»", "]")]:
        line = line.replace(a, b)
    return line


def _var(s):
    m = re.fullmatch(r"[{\"]?«([^»|]+)(\|[^»]*)?»[}\"]?", s.strip())
    return m.group(1) if m else None


def r19d(model, ctx):
    R = "R-19d"
    n_loc = n_clk = 0
    for rel in VENDORS:
        m = model.mod(rel)
        for n in ast.walk(m.tree):
            if not (isinstance(n, ast.Constant) and isinstance(n.value, str) and "iter_port_constraints_bits()" in n.value):
                continue
            text = n.value
            lines = text.splitlines()
            loops = [i for i, l in enumerate(lines) if "iter_port_constraints_bits()" in l]
            for li in loops:
                head = lines[li]
                mvars = re.search(r"\{%\s*for\s+(\w+)\s*,\s*(\w+)\s*,\s*(\w+)\s+in\s+platform\.iter_port_constraints_bits\(\)", head)
                need(mvars is not None, f"{rel}:{n.lineno}: cannot parse the loop header {head.strip()!r}")
                pvar, svar, _avar = mvars.groups()
                # first non-control line of the body is the location line
                body = []
                depth = 0
                for l in lines[li + 1:]:
                    s = l.strip()
                    if re.match(r"\{%-?\s*endfor", s) and depth == 0:
                        break
                    if re.match(r"\{%-?\s*(for|if)\b", s):
                        depth += 1
                    if re.match(r"\{%-?\s*(endfor|endif)", s):
                        depth -= 1
                    body.append((depth, s))
                loc = [s for d, s in body if d == 0 and s and not s.startswith("{%")]
                need(loc, f"{rel}:{n.lineno}: empty constraint loop body")
                line = _norm_jinja(loc[0])
                hit = None
                for fname, rx in LOC_FORMATS:
                    mm = rx.match(line)
                    if mm:
                        hit = (fname, _var(mm.group("port")), _var(mm.group("site")))
                        break
                cons = f"{rel.split('/')[-1]}:template@{n.lineno}+{li}:location"
                if hit is None:
                    raise AnalysisError(f"{rel}:{n.lineno}: location line {loc[0]!r} matches no known constraint format")
                n_loc += 1
                ok = hit[1] == pvar and hit[2] == svar and pvar == "port_name" and svar == "pin_name"
                ctx.check(ok, R, cons, f"{hit[0]}: net slot = {hit[1]}, site slot = {hit[2]}",
                          f"{hit[0]} line {loc[0]!r}: the net slot holds `{hit[1]}` and the site slot `{hit[2]}`; the loop "
                          f"yields (port_name, pin_name, attrs), so the port must be in the net slot and the pin in the "
                          f"site slot", f"{rel}:{n.lineno + li}")
                # attribute lines must refer to the port, not the pin
                for d, s in body:
                    if s.startswith(("ldc_set_port", "IO_PORT", "IOBUF")):
                        l2 = _norm_jinja(s)
                        ok2 = f"«{pvar}" in l2 and f"«{svar}" not in l2
                        ctx.check(ok2, R, cons + ":attrs", "attribute line names the port",
                                  f"attribute line {s!r} must name the port ({pvar}), not the pin", f"{rel}:{n.lineno + li}")
        # clock lines anywhere in the vendor file
        for n in ast.walk(m.tree):
            if not (isinstance(n, ast.Constant) and isinstance(n.value, str) and "clock_constraints()" in n.value):
                continue
            lines = n.value.splitlines()
            for i, l in enumerate(lines):
                mh = re.search(r"\{%\s*for\s+(\w+)\s*,\s*(\w+)\s+in\s+platform\.iter_(signal|port)_clock_constraints\(\)", l)
                if not mh:
                    continue
                obj, freq, kind = mh.groups()
                body = lines[i + 1] if i + 1 < len(lines) else ""
                j = i + 1
                while j < len(lines) and not lines[j].strip():
                    j += 1
                body = lines[j].strip()
                if lines[j].rstrip().endswith("[get_ports") or lines[j].rstrip().endswith("[get_nets"):
                    body = body + " " + lines[j + 1].strip()
                line = _norm_jinja(body)
                hit = None
                for fname, rx, unit in CLOCK_FORMATS:
                    mm = rx.match(line)
                    if mm:
                        hit = (fname, mm.group("val"), unit, mm.group("net"))
                        break
                if hit is None:
                    raise AnalysisError(f"{rel}:{n.lineno}: clock line {body!r} matches no known constraint format")
                n_clk += 1
                val = _var(hit[1])
                want = hit[2].replace("frequency", freq)
                objname = "port" if kind == "port" else "signal"
                ok = val == want and freq == "frequency" and obj == objname and f"«{obj}" in hit[3]
                ctx.check(ok, R, f"{rel.split('/')[-1]}:template@{n.lineno}+{i}:clock:{hit[0]}", f"{hit[0]}: {val} for {obj}",
                          f"{hit[0]} clock line {body!r}: the value must be `{want}` (the loop's frequency in Hz converted to the "
                          f"unit of this format) for the loop's own {objname}; found `{val}`", f"{rel}:{n.lineno + i}")
    need(n_loc >= 6 and n_clk >= 8, f"only {n_loc} location and {n_clk} clock template lines recognised")
    # ResourceManager.add_clock_constraint stores Hz; default clock constraint uses the declared period
    f = model.func(f"{RES}::ResourceManager.add_clock_constraint")
    ok = "frequency = period.hertz" in unparse(f) and "clocks[clock] = frequency" in unparse(f)
    ctx.check(ok, R, "add_clock_constraint:hertz", "constraints are stored in Hz", "clock constraints must be stored as period.hertz",
              f"{RES}:{f.lineno}")
    fr = model.func_expanded(f"{RES}::ResourceManager.request.resolve", depth=3, exclude=("add_clock_constraint", "merge_options", "resolve"))
    ok = unparse(fr).count("self.add_clock_constraint(iop, resource.clock.period)") == 1 and \
        unparse(fr).count("self.add_clock_constraint(p, resource.clock.period)") == 1
    ctx.check(ok, R, "resolve:clock", "a declared clock constrains the requested port with its period",
              "a resource's declared clock must be added as a constraint on the requested IOPort with resource.clock.period",
              f"{RES}:{fr.lineno}")


def r19e(model, ctx):
    """net naming in constraint files: the hierarchy filter names a net by every path component the back end recorded
    for it, minus the design name (writer: back/rtlil.py ModuleEmitter stores (*module.name, leaf); the top module's name
    is the 1-tuple (name,) given to Design()); IOPorts are named by their own name; the filter is registered."""
    R = "R-19e"
    PLAT, RTL, IRP = "amaranth/build/plat.py", "amaranth/back/rtlil.py", "amaranth/hdl/_ir.py"
    # writer side
    mod = model.mod(RTL)
    writes = [n for n in ast.walk(mod.tree) if isinstance(n, ast.Assign) and isinstance(n.targets[0], ast.Subscript)
              and unparse(n.targets[0].value) == "self.name_map"]
    need(len(writes) >= 2, "rtlil: name_map writers not found")
    for w in writes:
        v = w.value
        ok = isinstance(v, ast.Tuple) and len(v.elts) == 2 and isinstance(v.elts[0], ast.Starred) and \
            unparse(v.elts[0].value) == "self.module.name"
        ctx.check(ok, R, f"rtlil:name_map[{unparse(w.targets[0].slice)}]={unparse(v.elts[-1]) if isinstance(v, ast.Tuple) else '?'}",
                  "(*module path, leaf name)", f"the back end must record a signal's name as (*self.module.name, leaf); found "
                  f"{unparse(v)}", f"{RTL}:{w.lineno}")
    # depth of the top-level path
    depth = set()
    for rel, where in ((IRP, "build_netlist"), (PLAT, "TemplatedPlatform.prepare"), (PLAT, "Platform.prepare")):
        try:
            f = model.func(f"{rel}::{where}")
        except AnalysisError:
            continue
        for n in ast.walk(f):
            if isinstance(n, ast.keyword) and n.arg == "hierarchy" and isinstance(n.value, ast.Tuple):
                depth.add(len(n.value.elts))
    need(depth == {1}, f"top-level hierarchy tuples have lengths {sorted(depth)}; expected exactly (name,)")
    # reader side
    f = model.func(f"{PLAT}::TemplatedPlatform.toolchain_prepare.hierarchy")
    rets = [n for n in ast.walk(f) if isinstance(n, ast.Return)]
    env = {}
    for st in ast.walk(f):
        if isinstance(st, ast.Assign) and isinstance(st.targets[0], ast.Name):
            env[st.targets[0].id] = st.value
    from ..engine.symx import subst
    joined = [subst(r.value, env) for r in rets if "join" in unparse(r.value)]
    ok = False
    found = "-"
    if len(joined) == 1:
        m = pmatch("separator.join(_V_X)", joined[0])
        found = unparse(joined[0])
        if m is not None and isinstance(m["_V_X"], ast.Subscript) and isinstance(m["_V_X"].slice, ast.Slice):
            sl = m["_V_X"].slice
            ok = unparse(m["_V_X"].value) == "self._name_map[net]" and sl.lower is not None and const_int(sl.lower) == 1 and \
                sl.upper is None and (sl.step is None or const_int(sl.step) == 1)
    ctx.check(ok, R, "hierarchy-filter:path", "separator.join(self._name_map[net][1:]) — every component below the design name",
              f"the hierarchy filter must name a net by all recorded path components after the design name "
              f"(self._name_map[net][1:]); found {found}: a clock constraint on a net inside a submodule would name a different net",
              f"{PLAT}:{f.lineno}")
    ok = any(isinstance(r.value, ast.Attribute) and unparse(r.value) == "net.name" for r in rets) and \
        any(isinstance(n, ast.If) and unparse(n.test) == "isinstance(net, IOPort)" for n in ast.walk(f))
    ctx.check(ok, R, "hierarchy-filter:ioport", "an IOPort is named by its own name", "the hierarchy filter must name an IOPort by "
              "net.name", f"{PLAT}:{f.lineno}")
    tp = model.func(f"{PLAT}::TemplatedPlatform.toolchain_prepare")
    regs = {}
    for n in ast.walk(tp):
        if isinstance(n, ast.Assign) and isinstance(n.targets[0], ast.Subscript) and \
                unparse(n.targets[0].value) == "compiled.environment.filters":
            regs[unparse(n.targets[0].slice)] = unparse(n.value)
    bad = {k: v for k, v in regs.items() if k.strip("'\"") != v}
    ctx.check(not bad and "'hierarchy'" in regs, R, "template-filters:registration", f"{len(regs)} filters registered under their own names",
              f"template filters registered under a different function: {bad}", f"{PLAT}:{tp.lineno}")
    # every signal-clock template line goes through the filter (port clocks use port.name or the filter)
    n_sig = 0
    for rel in VENDORS:      # the property's scope: templates of the open toolchains that render offline
        m = model.mod(rel)
        for n in ast.walk(m.tree):
            if isinstance(n, ast.Constant) and isinstance(n.value, str) and "iter_signal_clock_constraints()" in n.value:
                lines = n.value.splitlines()
                for i, l in enumerate(lines):
                    if "iter_signal_clock_constraints()" not in l:
                        continue
                    body = []
                    for l2 in lines[i + 1:]:
                        if re.match(r"\s*\{%-?\s*endfor", l2):
                            break
                        body.append(l2)
                    text = " ".join(body)
                    n_sig += 1
                    ok = "signal|hierarchy(" in text.replace(" ", "")
                    ctx.check(ok, R, f"{rel.split('/')[-1]}:template@{n.lineno}+{i}:signal-clock-net", "net named through |hierarchy(sep)",
                              f"signal clock constraint names its net without the hierarchy filter: {text.strip()[:100]!r}",
                              f"{rel}:{n.lineno + i}")
    need(n_sig >= 7, f"only {n_sig} signal clock template loops found")


def r19f(model, ctx):
    """Connector: the parent-connector prefix (`conn=`) is applied to every pin of the mapping whatever form the I/O list was
    given in (dictionary or string): chained connectors resolve through it"""
    from ..engine.astutil import parent_map, dominating_conditions
    R = "R-19f"
    f = model.func(f"{DSLB}::Connector.__init__")
    pm = parent_map(f)
    pref = []
    for n in ast.walk(f):
        if isinstance(n, ast.JoinedStr) and "conn_name" in unparse(n) and "conn_number" in unparse(n) and ":" in unparse(n):
            st = n
            while st is not None and not isinstance(st, ast.stmt):
                st = pm.get(st)
            pref.append(st)
    need(pref, "Connector.__init__: the parent-connector prefix f\"{conn_name}_{conn_number}:...\" was not found")
    ok = True
    forms_seen = set()
    for st in pref:
        conds = dominating_conditions(pm, st, f)
        ctext = {(unparse(t), pol) for t, pol in conds}
        forms = {t for t, pol in ctext if "isinstance(io," in t and pol} | {"not-" + t for t, pol in ctext if "isinstance(io," in t and not pol}
        forms_seen |= forms or {"any"}
        ok = ok and any(t in ("conn is not None",) and pol for t, pol in ctext)
    # either one prefixing site outside the form dispatch, or one per form
    ok = ok and ("any" in forms_seen or {"isinstance(io, dict)"} <= forms_seen and
                 any("isinstance(io, str)" in x for x in forms_seen))
    ctx.check(ok, R, "Connector.__init__:conn-prefix", "every mapped pin gets the parent connector's prefix when conn= is given",
              f"the `conn=` prefix must be applied to the pins of dictionary-form and string-form connectors alike (found under "
              f"{sorted(forms_seen)}): without it a stacked connector yields the parent connector's pin number instead of the "
              f"physical pin, and pin clashes go unnoticed", f"{DSLB}:{f.lineno}")


def r19g(model, ctx):
    """the physical pin names of a resource are computed from the names and the connector mapping given at that call:
    map_names keeps no state on the object (a memoised result would be handed out for a different mapping)"""
    R = "R-19g"
    for cls in ("Pins",):
        f = model.func(f"{DSLB}::{cls}.map_names")
        stores = [unparse(t) for st in ast.walk(f) for t in (st.targets if isinstance(st, ast.Assign) else
                  [st.target] if isinstance(st, (ast.AugAssign, ast.AnnAssign)) else [])
                  if unparse(t).startswith("self.")]
        stores += [unparse(c) for c in ast.walk(f) if isinstance(c, ast.Call) and isinstance(c.func, ast.Attribute) and
                   c.func.attr in ("append", "extend", "update", "setdefault", "add", "__setitem__") and unparse(c.func.value).startswith("self.")]
        reads = sorted({unparse(a) for a in ast.walk(f) if isinstance(a, ast.Attribute) and unparse(a.value) == "self"} - {"self.names"})
        ctx.check(not stores and not [r for r in reads if r.startswith("self._")], R, f"{cls}.map_names:pure",
                  "a function of self.names and the mapping argument only",
                  f"map_names must compute its result from self.names and the mapping passed in; it stores to {stores} / reads {reads}: "
                  f"a result remembered on the object is returned for a later call with a different connector mapping",
                  f"{DSLB}:{f.lineno}")



def r19h(model, ctx):
    """compared with their reference semantics (sa/refs/c19_dsl.py) by path summary"""
    from .reflib import run_ref_file
    run_ref_file(model, ctx, "R-19h", "c19_dsl")


RULES = [("R-19h", r19h), ("R-19g", r19g), ("R-19f", r19f), ("R-19e", r19e), ("R-19a", r19a), ("R-19b", r19b), ("R-19c", r19c), ("R-19d", r19d)]
