#!/bin/sh
# copy finished benign patches of one property from the agent's scratch worktree into /verif/benign
p=$1
for d in /tmp/bn_$p/benign/[0-9]*; do
  n=$(basename $d)
  [ -f $d/patch.diff ] || continue
  if git -C /repo apply --check $d/patch.diff 2>/dev/null; then
    mkdir -p /verif/benign/$p-$n
    cp $d/patch.diff /verif/benign/$p-$n/patch.diff
    [ -f $d/notes.md ] && cp $d/notes.md /verif/benign/$p-$n/notes.md
    echo "collected $p-$n"
  else
    echo "SKIP $p-$n (does not apply)"
  fi
done
