#!/venv/bin/python
"""Record the names defined in /repo's amaranth package (functions, methods, classes, module- and class-level assigned
names) into /verif/sa/known_names.json.  The checks use it for the novelty guard (engine/runner.py): a violation located
in a function that now uses a definition which did not exist when the rules were written is reported as an unrecognised
shape (exit 2), not as a violation — extract-method and table-hoisting refactorings move the logic a rule looks for into
definitions the rule knows nothing about.  Regenerate only together with a review of the rules."""
import ast, json, os, sys
if sys.version_info[:2] != (3, 12):
    sys.exit("run with /venv/bin/python (3.12): ast.unparse spells nested f-string quotes differently in other versions, and the "
             "drift guard compares against what ./check computes")
ROOT = os.path.dirname(os.path.dirname(os.path.abspath(__file__)))
sys.path.insert(0, ROOT)
from sa.engine.core import Model
from sa.engine.runner import defined_names, normalised_lines

m = Model()
out = {}
for rel in m.all_files():
    out[rel] = sorted(defined_names(m.mod(rel).tree))
json.dump(out, open(os.path.join(ROOT, "sa", "known_names.json"), "w"), indent=0, sort_keys=True)
print(sum(len(v) for v in out.values()), "names in", len(out), "files")
src = {rel: normalised_lines(m.mod(rel).tree) for rel in m.all_files()}
json.dump(src, open(os.path.join(ROOT, "sa", "known_source.json"), "w"), indent=0, sort_keys=True)
print(sum(len(v) for v in src.values()), "normalised source lines recorded")
