#!/venv/bin/python
"""Which functions of each property's anchored files does no rule of that property look at?

A guide for writing rules, not a check: every lookup of a function or class through Model.find (and everything the
expanded views inline) is recorded while the property's rules run on the clean tree; functions of the anchored files
that are never looked up — nor contained in / containing a looked-up node — are listed with their size.  Rules that scan
whole modules (ast.walk over the tree) are not credited, so the list over-approximates."""
import os as _os, sys as _sys
if _sys.version_info[:2] != (3, 12) and _os.path.exists("/venv/bin/python"):
    _os.execv("/venv/bin/python", ["/venv/bin/python"] + _sys.argv)      # same interpreter as ./check (ast.unparse differs between versions)
import ast, json, os, sys
sys.path.insert(0, os.path.dirname(os.path.dirname(os.path.abspath(__file__))))
from sa.engine import core
from sa.engine.runner import run_rules

props = {}
for line in open(os.path.join(core.VERIF, "properties.jsonl")):
    d = json.loads(line)
    props[d["id"]] = d
only = sys.argv[1:]
for pid, d in sorted(props.items()):
    if only and pid not in only:
        continue
    try:
        __import__(f"sa.rules.{pid.lower()}")
    except ImportError:
        continue
    model = core.Model()
    seen = set()
    orig_find = core.Model.find

    def find(self, ref, *a, **k):
        n = orig_find(self, ref, *a, **k)
        if n is not None:
            seen.add((ref.partition("::")[0], n.lineno, getattr(n, "end_lineno", n.lineno)))
        return n
    core.Model.find = find
    try:
        run_rules(pid, model)
    finally:
        core.Model.find = orig_find
    print(f"== {pid}: {d['title']}")
    for rel in d["anchors"]["files"]:
        try:
            m = model.mod(rel)
        except Exception:
            continue
        spans = [(a, b) for r, a, b in seen if r == rel]
        rows = []
        for n in ast.walk(m.tree):
            if isinstance(n, (ast.FunctionDef, ast.AsyncFunctionDef)):
                a, b = n.lineno, n.end_lineno
                if any(x <= a and b <= y or a <= x and y <= b for x, y in spans):
                    continue
                body = [s for s in n.body if not (isinstance(s, ast.Expr) and isinstance(s.value, ast.Constant))]
                size = sum(1 for s in body for _ in ast.walk(s) if isinstance(_, ast.stmt))
                if size >= 3:
                    rows.append((m.qualname_of(n), a, size))
        total = sum(1 for n in ast.walk(m.tree) if isinstance(n, (ast.FunctionDef, ast.AsyncFunctionDef)))
        print(f"  {rel}: {len(rows)} of {total} functions (>=3 statements) never looked up")
        for q, a, size in sorted(rows, key=lambda r: -r[2])[:25]:
            print(f"      {q}:{a}  ({size} stmts)")
