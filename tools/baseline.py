#!/venv/bin/python
"""Run the repository's pinned test suite (hooks/guards OFF) and compare with /root/.vp/BASELINE.json stable_pass."""
import json, os, subprocess, sys, tempfile, xml.etree.ElementTree as ET
base = json.load(open("/root/.vp/BASELINE.json"))
fd, path = tempfile.mkstemp(suffix=".xml"); os.close(fd)
env = dict(os.environ); env.pop("AMARANTH_VERIF", None)
cmd = base["cmd"].replace("<file>", path)
if len(sys.argv) > 1:
    cmd = cmd.replace("cd /repo", "cd " + sys.argv[1])
subprocess.run(cmd, shell=True, env=env, stdout=subprocess.DEVNULL, stderr=subprocess.DEVNULL)
passed = set()
for tc in ET.parse(path).getroot().iter("testcase"):
    if not any(ch.tag in ("failure", "error", "skipped") for ch in tc):
        passed.add(f"{tc.get('classname')}::{tc.get('name')}")
os.unlink(path)
missing = sorted(set(base["stable_pass"]) - passed)
print(f"stable_pass expected {len(base['stable_pass'])}, passing now {len(set(base['stable_pass']) & passed)}, missing {len(missing)}")
for m in missing[:40]:
    print("  REGRESSED", m)
sys.exit(1 if missing else 0)
