#!/venv/bin/python
"""Apply each /verif/benign/<id>/patch.diff (behaviour-preserving refactorings written by independent sub-agents that
saw only a property text), run every claimed quick check, undo; a VIOLATION is a false alarm of the machinery, an
ANALYSIS-ERROR (exit 2) an honest `shape not recognised`.  Results go to benign/RESULTS.json."""
import json, os, subprocess, sys
from concurrent.futures import ThreadPoolExecutor
os.chdir("/verif")
man = json.load(open("MANIFEST.json"))
props = [c["property_id"] for c in man["checks"]]
only = sys.argv[1:]
def sh(c): return subprocess.run(c, shell=True, capture_output=True, text=True)
assert sh("git -C /repo status --porcelain").stdout.strip() == "", "/repo not clean"

def run_all():
    def run(p):
        env = dict(os.environ, VERIF_NO_EVIDENCE="1")
        rr = subprocess.run(["./check", p], capture_output=True, text=True, env=env)
        fired = sorted({l.strip().split(": ", 1)[1][:200] for l in rr.stdout.splitlines() if ": [R-" in l})
        errs = [l[:200] for l in rr.stdout.splitlines() if l.startswith("ANALYSIS-ERROR")]
        return p, rr.returncode, fired, errs
    with ThreadPoolExecutor(8) as ex:
        return list(ex.map(run, props))

rows = {}
if os.path.exists("benign/RESULTS.json"):
    rows = {r["id"]: r for r in json.load(open("benign/RESULTS.json"))}
for bid in sorted(os.listdir("benign")):
    d = f"benign/{bid}"
    if not os.path.isdir(d) or (only and bid not in only and bid.split("-")[0] not in only):
        continue
    if sh(f"git -C /repo apply --check /verif/{d}/patch.diff").returncode != 0:
        rows[bid] = {"id": bid, "status": "stale (patch no longer applies)", "fired": [], "errors": []}
        continue
    sh(f"git -C /repo apply /verif/{d}/patch.diff")
    try:
        out = run_all()
    finally:
        sh("git -C /repo checkout -- .")
    fired = [[p, f] for p, rc, f, e in out if f]
    errs = [[p, e] for p, rc, f, e in out if e]
    status = "FALSE-ALARM" if fired else ("unrecognised" if errs else "silent")
    rows[bid] = {"id": bid, "status": status, "fired": fired, "errors": errs}
    print(f"{bid:10s} {status:14s} {[p for p, _ in fired]} {[p for p, _ in errs]}")
    for p, f in fired:
        for l in f[:3]:
            print("       ", p, l[:180])
    for p, e in errs:
        for l in e[:2]:
            print("       ", p, l[:180])
json.dump([rows[k] for k in sorted(rows)], open("benign/RESULTS.json", "w"), indent=1)
