#!/venv/bin/python
"""Regenerate /verif/MANIFEST.json from the rule modules that exist (keeps the manifest valid at all times)."""
import importlib
import json
import os
import subprocess
import sys

HERE = os.path.dirname(os.path.dirname(os.path.abspath(__file__)))
sys.path.insert(0, HERE)

ALL = [f"C{n:02d}" for n in range(1, 21)]

NOT_APPLICABLE = {
    "C16": "CRC correctness is an identity over GF(2) for all parameter sets and word sequences plus catalogue data "
           "whose check values require computing a CRC; no branch structure, ordering or ownership fact in lib/crc is "
           "a necessary condition that static analysis could decide (DESIGN.md section 6).",
}
PENDING = "check not built yet in this round (static rules designed in DESIGN.md section 3; claimed once implemented)"

TEXT = {}


TECHNIQUE = {
    "C01": "sibling-interpreter agreement by dispatch recovery (Operator.shape / _pyrtl templates / _pyeval / NIR builder), "
           "f-string template taint analysis (raw vs normalised operand holes), partial evaluation of Operator.shape with "
           "symbolic widths compared in max-plus normal form, dunder/override table cross-check, window polynomials of "
           "constant-folded part selects; path-summary comparison of the default value transformers, casts and pattern normalisation with reference functions",
    "C02": "template recovery of the generated switch/assignment code, statement-order (CFG dominance) rules for reset-then-"
           "statements, window arithmetic of the three assignment walkers in polynomial normal form with entry-clip "
           "detection, masked read-modify-write idiom check, per-domain case-list completeness; path-summary comparison of the control-flow builder (If/Switch/FSM) with reference functions; mask-passing and current/next mode discipline of the value compilers",
    "C03": "call-site resolution of clock/reset wakers (polarity and domain arguments, local alias resolution), "
           "who-handles-what tables of the fragment transformers (memory ports, enables, resets), reset_less guards; literal clock-edge rule of clocked netlist cells; per-fragment transformer state restored (save/restore typestate); rebuild completeness of transformed fragments",
    "C04": "operator-universe exhaustiveness and table agreement between the NIR builder and the RTLIL emitter (cell name, "
           "signedness flags, operand order), path summaries per operator with infeasible-path pruning, cache-key "
           "completeness of memoised emitters",
    "C05": "must-pass-through (CFG) of settle/step calls in the testbench context, evaluator/assignment walker rules shared "
           "with C01/C02 restricted to the testbench evaluator; path-summary comparison of the trigger machinery with reference functions",
    "C06": "CFG path rule of the cycle detector (busy set, raise condition), check-then-record typestate of driver and I/O "
           "bookkeeping, call-order rule (cycle check before net resolution), per-bit dependency tables per cell kind; asynchronous-reset edges and busy-mark discipline of the cycle detector",
    "C07": "writer-side table check of every emitted RTLIL cell (parameter = width of the connected operand, names through "
           "the de-duplicating allocator), symbolic width equalities; path-summary comparison of net-flow routing and I/O directions with reference functions",
    "C08": "who-may-write analysis of simulator state (curr/next), commit ordering by CFG reachability, container-kind "
           "inference for iteration order, pending-value merge base; path-summary comparison of the trigger state machine, engine commit and simulator front end with reference functions; waker persistence typestate",
    "C09": "container-kind inference: every for/comprehension over a hash-ordered container reaching emitted output is "
           "flagged unless sorted or exempt by table; reset re-initialisation typestate; archive time-stamp rule",
    "C10": "normalisation-path rules of Signal/Const construction (every init value passes through the normaliser), "
           "raise-before-use ordering, shape-castable protocol call sites",
    "C11": "memory state who-may-write, transparency patch ordering, read-modify-write mask idiom, port parameter tables "
           "shared with C04/C07",
    "C12": "Module-DSL elaborate() analyser: syntactic support of guards (accepted strobes), range/modulus/depth expression "
           "agreement, level bookkeeping guards",
    "C13": "Module-DSL elaborate() analyser (side placement, Gray register crossing), interval analysis of constant bit "
           "indices against constructor arithmetic, abstract interpretation of the Gray helpers over GF(2)-affine bit "
           "vectors for pointer widths 1..33, synchroniser stage-count ordering resolved from call sites and defaults",
    "C14": "flip-involution table (which accessors flip), connect() bookkeeping path rules, sibling agreement between "
           "Signature/FlippedSignature members; sibling agreement on walking member dimensions (create/flatten/is_compliant/connect/flipped proxy); path-summary comparison of flipping with reference functions",
    "C15": "View/Const twin agreement by path summaries with bit windows in polynomial normal form, accumulator idiom "
           "check of layout offsets, strided-slice contiguity by finite difference, flag-operator tables, assignment "
           "window rules shared with C02; class-level state read-only (alias analysis of `cls.` tables); enum member constant stored by value",
    "C17": "Module-DSL elaborate() analyser of the CDC primitives: stage chains, domain placement, forwarded parameters",
    "C18": "field-wise agreement of port slicing/concatenation/inversion, sibling agreement of the three buffer kinds "
           "(direction checks, domain placement), I/O use check-then-record shared with C06; rebuild completeness of transformed I/O buffers; single-result rule of port composition; reference semantics of IOValue indexing",
    "C19": "CFG check-then-commit of ResourceManager.request over a closure supergraph (or snapshot/rollback), dominance "
           "of the clash test, order preservation of pin lists, Jinja constraint-template slot analysis, writer/reader "
           "agreement of net names; purity of map_names, connector prefix for both I/O forms; reference semantics of Clock/Pins",
    "C20": "format-spec handling paths (parse before use), template recovery of generated print/assert code (whole-condition "
           "truth test), control-inserter coverage of print/assert domains; every-domain-compiled rule of the fragment compiler; reference semantics of Print/Property construction",
}

def main():
    checks = []
    na = []
    fix_commits = []
    try:
        out = subprocess.run(["git", "-C", "/repo", "log", "--format=%h %s"], capture_output=True, text=True).stdout
        for line in out.splitlines():
            h, _, subj = line.partition(" ")
            if subj.startswith("fix:"):
                fix_commits.append(h)
    except Exception:
        pass
    for pid in ALL:
        if pid in NOT_APPLICABLE:
            na.append({"property_id": pid, "reason": NOT_APPLICABLE[pid]})
            continue
        try:
            mod = importlib.import_module(f"sa.rules.{pid.lower()}")
        except ModuleNotFoundError:
            na.append({"property_id": pid, "reason": PENDING})
            continue
        rules = [r for r, _ in mod.RULES]
        checks.append({
            "property_id": pid,
            "quick_cmd": f"./check {pid} --tier quick",
            "thorough_cmd": f"./check {pid} --tier thorough",
            "evidence_file": f"/verif/evidence/{pid}.json",
            "replay_cmd_template": f"./check {pid} --replay {{path}}",
            "engine": "sa",
            "level_claimed": {
                "category": "other",
                "text": ("Exact static decision (Python ast over /repo's current source, nothing executed) of named "
                         "structural necessary conditions of the property, not of the behaviour itself. "
                         + mod.EXPLANATION),
                "design_ref": f"DESIGN.md section 3, {pid}",
            },
            "level_note": "Trusted base: CPython's ast module; the frozen reference tables in sa/rules/*.py (one line "
                          "of justification each); name/receiver-shape based resolution (no type checker is "
                          "available in the image); the paper arguments in DESIGN.md. A pass means no structural "
                          "violation of the listed clauses (rules " + ", ".join(rules) + "); clauses listed as NOT "
                          "decided are outside the claim.",
            "technique": "static analysis (stdlib ast over /repo's source, nothing executed): " + TECHNIQUE[pid],
        })
    manifest = {
        "version": 1,
        "setup_cmd": "test -x /venv/bin/python && test -d /repo/amaranth && /venv/bin/python -c \"import ast, json\"",
        "hooks": {
            "guard": "AMARANTH_VERIF",
            "enable": "no hooks: the checks read /repo's source text only and never import or run it",
            "baseline_off_cmd": "/venv/bin/python /verif/tools/baseline.py",
            "source_commits": fix_commits,
            "add_only": True,
        },
        "engines": [{
            "name": "sa",
            "path": "/verif/sa",
            "serves_properties": [c["property_id"] for c in checks],
            "kind_free_text": "repository-specific static analysers over Python ast (stdlib only): dispatch recovery, "
                              "f-string template recovery with typed holes, statement CFG with closure supergraph, "
                              "substitution path summaries, max-plus/polynomial normal forms",
        }],
        "checks": checks,
        "notes": "All checks are static (family: static analysis). Exit 0 = all rule instances hold (KNOWN-FINDING "
                 "lines for entries of known_findings.json); exit 1 + VIOLATION line = a recognised construct "
                 "contradicts a rule; exit 2 + ANALYSIS-ERROR = the source no longer has a shape the extractor "
                 "understands (never a silent pass). hooks.source_commits lists the unguarded `fix:` commits.",
        "not_applicable": na,
    }
    with open(os.path.join(HERE, "MANIFEST.json"), "w") as f:
        json.dump(manifest, f, indent=1)
    print(f"MANIFEST.json: {len(checks)} checks, {len(na)} not_applicable")


if __name__ == "__main__":
    main()
