#!/venv/bin/python
"""Regenerate /verif/MANIFEST.json from the rule modules that exist (keeps the manifest valid at all times)."""
import importlib
import json
import os
import subprocess
import sys

HERE = os.path.dirname(os.path.dirname(os.path.abspath(__file__)))
sys.path.insert(0, HERE)

ALL = [f"C{n:02d}" for n in range(1, 21)]

NOT_APPLICABLE = {
    "C16": "CRC correctness is an identity over GF(2) for all parameter sets and word sequences plus catalogue data "
           "whose check values require computing a CRC; no branch structure, ordering or ownership fact in lib/crc is "
           "a necessary condition that static analysis could decide (DESIGN.md section 6).",
}
PENDING = "check not built yet in this round (static rules designed in DESIGN.md section 3; claimed once implemented)"

TEXT = {}


def main():
    checks = []
    na = []
    fix_commits = []
    try:
        out = subprocess.run(["git", "-C", "/repo", "log", "--format=%h %s"], capture_output=True, text=True).stdout
        for line in out.splitlines():
            h, _, subj = line.partition(" ")
            if subj.startswith("fix:"):
                fix_commits.append(h)
    except Exception:
        pass
    for pid in ALL:
        if pid in NOT_APPLICABLE:
            na.append({"property_id": pid, "reason": NOT_APPLICABLE[pid]})
            continue
        try:
            mod = importlib.import_module(f"sa.rules.{pid.lower()}")
        except ModuleNotFoundError:
            na.append({"property_id": pid, "reason": PENDING})
            continue
        rules = [r for r, _ in mod.RULES]
        checks.append({
            "property_id": pid,
            "quick_cmd": f"./check {pid} --tier quick",
            "thorough_cmd": f"./check {pid} --tier thorough",
            "evidence_file": f"/verif/evidence/{pid}.json",
            "replay_cmd_template": f"./check {pid} --replay {{path}}",
            "engine": "sa",
            "level_claimed": {
                "category": "other",
                "text": ("Exact static decision (Python ast over /repo's current source, nothing executed) of named "
                         "structural necessary conditions of the property, not of the behaviour itself. "
                         + mod.EXPLANATION),
                "design_ref": f"DESIGN.md section 3, {pid}",
            },
            "level_note": "Trusted base: CPython's ast module; the frozen reference tables in sa/rules/*.py (one line "
                          "of justification each); name/receiver-shape based resolution (no type checker is "
                          "available in the image); the paper arguments in DESIGN.md. A pass means no structural "
                          "violation of the listed clauses (rules " + ", ".join(rules) + "); clauses listed as NOT "
                          "decided are outside the claim.",
            "technique": "static analysis: custom ast checkers (dispatch/sibling agreement, template taint, CFG path "
                         "rules, symbolic normal forms)",
        })
    manifest = {
        "version": 1,
        "setup_cmd": "test -x /venv/bin/python && test -d /repo/amaranth && /venv/bin/python -c \"import ast, json\"",
        "hooks": {
            "guard": "AMARANTH_VERIF",
            "enable": "no hooks: the checks read /repo's source text only and never import or run it",
            "baseline_off_cmd": "/venv/bin/python /verif/tools/baseline.py",
            "source_commits": fix_commits,
            "add_only": True,
        },
        "engines": [{
            "name": "sa",
            "path": "/verif/sa",
            "serves_properties": [c["property_id"] for c in checks],
            "kind_free_text": "repository-specific static analysers over Python ast (stdlib only): dispatch recovery, "
                              "f-string template recovery with typed holes, statement CFG with closure supergraph, "
                              "substitution path summaries, max-plus/polynomial normal forms",
        }],
        "checks": checks,
        "notes": "All checks are static (family: static analysis). Exit 0 = all rule instances hold (KNOWN-FINDING "
                 "lines for entries of known_findings.json); exit 1 + VIOLATION line = a recognised construct "
                 "contradicts a rule; exit 2 + ANALYSIS-ERROR = the source no longer has a shape the extractor "
                 "understands (never a silent pass). hooks.source_commits lists the unguarded `fix:` commits.",
        "not_applicable": na,
    }
    with open(os.path.join(HERE, "MANIFEST.json"), "w") as f:
        json.dump(manifest, f, indent=1)
    print(f"MANIFEST.json: {len(checks)} checks, {len(na)} not_applicable")


if __name__ == "__main__":
    main()
