#!/venv/bin/python
"""Apply each /verif/seeded/<id>/patch.diff, run every claimed quick check, undo; report which checks fire.

A patch that still applies to /repo's HEAD is applied there (git -C /repo apply ... ; git -C /repo checkout -- .).
A patch that has gone stale because /repo moved on (a later `fix:` commit touched the same lines) is evaluated in a
scratch worktree of the commit it was confirmed against (checks run with VERIF_REPO pointing at it); violations that
the clean tree of that commit already reports are subtracted."""
import os as _os, sys as _sys
if _sys.version_info[:2] != (3, 12) and _os.path.exists("/venv/bin/python"):
    _os.execv("/venv/bin/python", ["/venv/bin/python"] + _sys.argv)      # same interpreter as ./check (ast.unparse differs between versions)
import json, os, subprocess, sys
from concurrent.futures import ThreadPoolExecutor
os.chdir("/verif")
man = json.load(open("MANIFEST.json"))
props = [c["property_id"] for c in man["checks"]]
only = sys.argv[1:]
rows = []
def sh(c): return subprocess.run(c, shell=True, capture_output=True, text=True)
assert sh("git -C /repo status --porcelain").stdout.strip() == "", "/repo not clean"

def run_all(repo):
    def run(p):
        env = dict(os.environ, VERIF_NO_EVIDENCE="1", VERIF_REPO=repo)
        rr = subprocess.run(["./check", p], capture_output=True, text=True, env=env)
        fired = sorted({l.strip().split(": ", 1)[1][:160] for l in rr.stdout.splitlines() if ": [R-" in l})
        errs = [l for l in rr.stdout.splitlines() if l.startswith("ANALYSIS-ERROR")]
        return p, rr.returncode, fired, errs
    with ThreadPoolExecutor(8) as ex:
        return list(ex.map(run, props))

clean_cache = {}
for sid in sorted(os.listdir("seeded")):
    d = f"seeded/{sid}"
    if not os.path.isdir(d) or (only and sid not in only):
        continue
    meta = json.load(open(f"{d}/meta.json"))
    where = "/repo"
    if sh(f"git -C /repo apply --check /verif/{d}/patch.diff").returncode == 0:
        sh(f"git -C /repo apply /verif/{d}/patch.diff")
        try:
            out = run_all("/repo")
        finally:
            sh("git -C /repo checkout -- .")
        base = {}
    else:
        head = meta["repo_head_when_confirmed"]
        wt = "/tmp/wt_seedrun"
        sh(f"git -C /repo worktree remove --force {wt}")
        assert sh(f"git -C /repo worktree add -q --detach {wt} {head}").returncode == 0
        try:
            if head not in clean_cache:
                clean_cache[head] = {p: set(f) for p, rc, f, e in run_all(wt)}
            base = clean_cache[head]
            assert sh(f"git -C {wt} apply /verif/{d}/patch.diff").returncode == 0, "patch does not apply to its own head"
            out = run_all(wt)
        finally:
            sh(f"git -C /repo worktree remove --force {wt}")
        where = f"worktree@{head}"
    fired = [(p, [x for x in f if x not in base.get(p, set())]) for p, rc, f, e in out]
    fired = [(p, f) for p, f in fired if f]
    broken = [p for p, rc, f, e in out if e]
    rows.append((sid, meta["breaks_property"], "DETECTED" if fired else ("analysis-broken" if broken else "missed"), fired, broken, where))
for sid, prop, status, fired, broken, where in rows:
    print(f"{sid:10s} {prop}  {status:15s} by {[p for p, _ in fired]} analysis-broken={broken} ({where})")
    for p, f in fired:
        for l in f[:2]:
            print("      ", p, l[:170])
prev = {}
if os.path.exists("seeded/RESULTS.json") and only:
    prev = {r["seed"]: r for r in json.load(open("seeded/RESULTS.json"))}
for r in rows:
    prev[r[0]] = {"seed": r[0], "property": r[1], "status": r[2], "fired": [[p, f[:3]] for p, f in r[3]],
                  "analysis_broken": r[4], "evaluated_on": r[5]}
json.dump([prev[k] for k in sorted(prev)], open("seeded/RESULTS.json", "w"), indent=1)
