#!/venv/bin/python
"""Apply each /verif/seeded/<id>/patch.diff to /repo, run every claimed quick check, undo; report which checks fire."""
import json, os, subprocess, sys
from concurrent.futures import ThreadPoolExecutor
os.chdir("/verif")
man = json.load(open("MANIFEST.json"))
props = [c["property_id"] for c in man["checks"]]
only = sys.argv[1:]
rows = []
assert subprocess.run("git -C /repo status --porcelain", shell=True, capture_output=True, text=True).stdout.strip() == "", "/repo not clean"
for sid in sorted(os.listdir("seeded")):
    d = f"seeded/{sid}"
    if not os.path.isdir(d) or (only and sid not in only):
        continue
    meta = json.load(open(f"{d}/meta.json"))
    r = subprocess.run(f"git -C /repo apply /verif/{d}/patch.diff", shell=True, capture_output=True, text=True)
    if r.returncode != 0:
        rows.append((sid, meta["breaks_property"], "PATCH-STALE", [], []))
        continue
    try:
        def run(p):
            rr = subprocess.run(["./check", p], capture_output=True, text=True, env=dict(os.environ, VERIF_NO_EVIDENCE="1"))
            fired = [l.strip() for l in rr.stdout.splitlines() if "[R-" in l and "VIOLATION" not in l]
            return p, rr.returncode, fired
        with ThreadPoolExecutor(8) as ex:
            out = list(ex.map(run, props))
    finally:
        subprocess.run("git -C /repo checkout -- .", shell=True)
    fired = [(p, f) for p, rc, f in out if rc == 1]
    broken = [p for p, rc, f in out if rc == 2]
    rows.append((sid, meta["breaks_property"], "DETECTED" if fired else "missed", fired, broken))
for sid, prop, status, fired, broken in rows:
    print(f"{sid:28s} {prop}  {status:9s} by {[p for p, _ in fired]} analysis-broken={broken}")
    for p, f in fired:
        for l in f[:2]:
            print("      ", p, l[:200])
json.dump([{"seed": r[0], "property": r[1], "status": r[2], "fired": [[p, f[:2]] for p, f in r[3]], "analysis_broken": r[4]} for r in rows],
          open("seeded/RESULTS.json", "w"), indent=1)
