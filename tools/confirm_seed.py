#!/venv/bin/python
"""Confirm a sub-agent's seeded defect in a scratch worktree and file it under /verif/seeded/<id>/.
usage: confirm_seed.py <dir with patch.diff demo.py notes.md> <id> <property>"""
import os as _os, sys as _sys
if _sys.version_info[:2] != (3, 12) and _os.path.exists("/venv/bin/python"):
    _os.execv("/venv/bin/python", ["/venv/bin/python"] + _sys.argv)      # same interpreter as ./check (ast.unparse differs between versions)
import json, os, shutil, subprocess, sys
src, sid, prop = sys.argv[1], sys.argv[2], sys.argv[3]
WT = "/tmp/wt_confirm"
def sh(cmd, **kw):
    return subprocess.run(cmd, shell=True, capture_output=True, text=True, **kw)
sh(f"git -C /repo worktree remove --force {WT}")
r = sh(f"git -C /repo worktree add -q --detach {WT} HEAD"); assert r.returncode == 0, r.stderr
res = {"id": sid, "property": prop}
try:
    r = sh(f"git -C {WT} apply {src}/patch.diff")
    res["applies_to_head"] = r.returncode == 0
    if r.returncode != 0:
        print("PATCH DOES NOT APPLY:", r.stderr[:300]); sys.exit(1)
    env = dict(os.environ, PYTHONPATH=WT)
    demo = "demo.py" if os.path.exists(f"{src}/demo.py") else sorted(f for f in os.listdir(src) if f.endswith(".py"))[0]
    r1 = subprocess.run(["/venv/bin/python", f"{src}/{demo}"], cwd=WT, env=env, capture_output=True, text=True, timeout=600)
    res["demo_with_patch_rc"] = r1.returncode
    rb = sh(f"/venv/bin/python /verif/tools/baseline.py {WT}")
    res["baseline_with_patch"] = rb.stdout.strip().splitlines()[0] if rb.stdout else rb.stderr[:200]
    res["baseline_ok"] = rb.returncode == 0
    sh(f"git -C {WT} checkout -- .")
    r0 = subprocess.run(["/venv/bin/python", f"{src}/{demo}"], cwd=WT, env=env, capture_output=True, text=True, timeout=600)
    res["demo_without_patch_rc"] = r0.returncode
    ok = r1.returncode != 0 and r0.returncode == 0 and rb.returncode == 0
    res["confirmed"] = ok
    print(json.dumps(res, indent=1))
    if not ok:
        print("NOT CONFIRMED"); print(r1.stdout[-500:], r1.stderr[-500:]); print(r0.stdout[-300:], r0.stderr[-300:]); sys.exit(1)
    dst = f"/verif/seeded/{sid}"
    os.makedirs(dst, exist_ok=True)
    for f in os.listdir(src):
        if os.path.isfile(f"{src}/{f}"):
            shutil.copy(f"{src}/{f}", dst)
    head = sh("git -C /repo rev-parse --short HEAD").stdout.strip()
    notes = open(f"{src}/notes.md").read() if os.path.exists(f"{src}/notes.md") else ""
    meta = {"id": sid, "breaks_property": prop, "repo_head_when_confirmed": head,
            "needs_to_manifest": "see notes.md (written by the sub-agent that produced the change)",
            "what_was_run": [f"git apply patch.diff in a scratch worktree of /repo at {head}",
                             f"/venv/bin/python {demo} with the patch: exit {r1.returncode}",
                             f"pinned test suite with the patch: {res['baseline_with_patch']}",
                             f"/venv/bin/python {demo} without the patch: exit {r0.returncode}"],
            "source": "independent sub-agent given only the property text and a scratch worktree"}
    json.dump(meta, open(f"{dst}/meta.json", "w"), indent=1)
    print("CONFIRMED ->", dst)
finally:
    sh(f"git -C /repo worktree remove --force {WT}")
