#!/venv/bin/python
"""Print reference-file blocks for functions of /repo: the function as it is now, docstring dropped, exception messages
and warnings dropped.  The output is a starting point: every block is read against the documentation before it goes into
/verif/sa/refs/ (the reference is the rule; the tree is not trusted because it is the tree).
usage: make_ref.py <file>::<qualname> ..."""
import ast, os, sys
sys.path.insert(0, os.path.dirname(os.path.dirname(os.path.abspath(__file__))))
from sa.engine.core import Model


class Strip(ast.NodeTransformer):
    def visit_Raise(self, node):
        if isinstance(node.exc, ast.Call):
            node.exc = ast.Call(func=node.exc.func, args=[], keywords=[])
        node.cause = None
        return node

    def visit_Expr(self, node):
        if isinstance(node.value, ast.Call) and ast.unparse(node.value.func) in ("warnings.warn",):
            return ast.Pass()
        return node


if __name__ != "__main__":
    sys.argv = sys.argv[:1]
m = Model()
facts = {}
args = sys.argv[1:]
if args and args[0] == "--facts":
    import json
    facts = json.load(open(args[1]))
    args = args[2:] or list(facts)
for ref in args:
    fn = m.func(ref)
    body = [b for b in fn.body if not (isinstance(b, ast.Expr) and isinstance(b.value, ast.Constant))]
    new = ast.FunctionDef(name="_", args=fn.args, body=body or [ast.Pass()], decorator_list=[], returns=None, lineno=1, col_offset=0) \
        if isinstance(fn, ast.FunctionDef) else ast.AsyncFunctionDef(name="_", args=fn.args, body=body, decorator_list=[], returns=None, lineno=1, col_offset=0)
    new = ast.fix_missing_locations(Strip().visit(new))
    for a in ast.walk(new):
        if isinstance(a, ast.arg):
            a.annotation = None
    fact, why = facts.get(ref, ["TODO", "TODO"])
    print(f"#: {ref}\n#: fact: {fact}\n#: why: {why}")
    print(ast.unparse(new))
    print()
