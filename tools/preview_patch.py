#!/venv/bin/python
"""Evaluate patch files in memory (overlay on /repo's current source; /repo is not touched): which rules report NEW
violations or analysis errors.  usage: preview_patch.py <patch.diff>..."""
import os as _os, sys as _sys
if _sys.version_info[:2] != (3, 12) and _os.path.exists("/venv/bin/python"):
    _os.execv("/venv/bin/python", ["/venv/bin/python"] + _sys.argv)      # same interpreter as ./check (ast.unparse differs between versions)
import os, sys
sys.path.insert(0, "/verif")
os.environ.setdefault("VERIF_NO_EVIDENCE", "1")
from concurrent.futures import ProcessPoolExecutor
from sa.engine.core import Model
from sa.engine import runner
from sa.selftest.driver import apply_unified_diff
import json
PROPS = [c["property_id"] for c in json.load(open("/verif/MANIFEST.json"))["checks"]]

def clean(prop):
    mod, ctx, errs = runner.run_rules(prop, Model())
    return prop, set(ctx.keys()), errs

def one(args):
    path, prop, base = args
    ov = apply_unified_diff(open(path).read(), Model().text)
    if ov is None:
        return path, prop, "stale", [], []
    try:
        mod, ctx, errs = runner.run_rules(prop, Model(overlay=ov))
    except Exception as e:
        return path, prop, "error", [], [f"{type(e).__name__}: {e}"]
    msgs = {f"{v['rule']}|{v['construct']}": v.get('message', '') for v in ctx.violations}
    new = sorted(set(ctx.keys()) - base)
    return path, prop, "ran", [(k, msgs.get(k, "")[:160]) for k in new], errs

if __name__ == "__main__":
    record = "--record" in sys.argv
    paths = [a for a in sys.argv[1:] if a != "--record"]
    with ProcessPoolExecutor(16) as ex:
        base = {p: (k, e) for p, k, e in ex.map(clean, PROPS)}
        jobs = [(path, p, base[p][0]) for path in paths for p in PROPS]
        res = {}
        for path, prop, st, new, errs in ex.map(one, jobs):
            res.setdefault(path, []).append((prop, st, new, [e for e in errs if e not in base[prop][1]]))
    for path in paths:
        fired = [(p, n) for p, st, n, e in res[path] if n]
        errs = [(p, e) for p, st, n, e in res[path] if e]
        stale = any(st == "stale" for p, st, n, e in res[path])
        status = "stale" if stale else "FIRES" if fired else "unrecognised" if errs else "silent"
        print(f"{path}: {status} {[p for p, _ in fired]} {[p for p, _ in errs]}")
        for p, n in fired:
            for k, m in n[:3]:
                print("     ", p, k, m)
        for p, e in errs:
            print("     ", p, "ERR", e[0][:200])
        if record and "/benign/" in os.path.abspath(path):
            bid = os.path.basename(os.path.dirname(os.path.abspath(path)))
            rec = os.path.join("/verif/benign", "RESULTS.json")
            rows = {r["id"]: r for r in json.load(open(rec))} if os.path.exists(rec) else {}
            rows[bid] = {"id": bid, "status": {"FIRES": "FALSE-ALARM"}.get(status, status),
                         "fired": [[p, [k for k, _ in n][:4]] for p, n in fired], "errors": [[p, [x[:160] for x in e[:2]]] for p, e in errs]}
            json.dump([rows[k] for k in sorted(rows)], open(rec, "w"), indent=1)
