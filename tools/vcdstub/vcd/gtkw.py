from contextlib import contextmanager
class GTKWSave:
    def __init__(self, *a, **k): pass
    def __getattr__(self, name):
        def f(*a, **k): return None
        return f
    @contextmanager
    def group(self, *a, **k):
        yield
