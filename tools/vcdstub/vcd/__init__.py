class _Noop:
    def __init__(self, *a, **k): pass
    def __getattr__(self, name):
        def f(*a, **k): return None
        return f
    def __enter__(self): return self
    def __exit__(self, *a): return False
class VCDWriter(_Noop):
    pass
from . import gtkw
